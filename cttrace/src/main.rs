//! cttrace — C14: secret-independent execution in constant-time test mode.
//!
//! Built with `-Cpasses=sancov-module` (trace-pc-guard, trace-loads, trace-stores, pc-table): LLVM
//! calls the `__sanitizer_cov_*` functions below on every CFG edge and every memory access of every
//! crate linked in. While armed, the callbacks compare the event stream of the current run with
//! the recorded stream of the reference run of the same kernel; the first differing event is
//! reported (index, edge id / address, program counter). Functions named `__sanitizer_*` are not
//! instrumented by the pass, so all recording logic lives directly inside them.
#![allow(static_mut_refs, clippy::missing_safety_doc)]

use fips204::verif_hooks as hk;
use rand_core::{CryptoRng, RngCore, SeedableRng};
use serde_json::{json, Value};
use std::hint::black_box;

const CAP: usize = 1 << 23;
static mut ARMED: bool = false;
static mut COMPARE: bool = false;
static mut REF_E: [u32; CAP] = [0; CAP];
static mut REF_M: [u64; CAP] = [0; CAP];
static mut REF_N_E: usize = 0;
static mut REF_N_M: usize = 0;
static mut N_E: usize = 0;
static mut N_M: usize = 0;
static mut DIV_E: isize = -1;
static mut DIV_E_GOT: u32 = 0;
static mut DIV_M: isize = -1;
static mut DIV_M_GOT: u64 = 0;
static mut DIV_M_GUARD: u32 = 0;
static mut LAST_GUARD: u32 = 0;
static mut N_GUARDS: u32 = 0;
static mut PCS: *const usize = core::ptr::null();
static mut OVERFLOW: bool = false;

#[no_mangle]
pub unsafe extern "C" fn __sanitizer_cov_trace_pc_guard_init(start: *mut u32, stop: *mut u32) {
    if start == stop || *start != 0 {
        return;
    }
    let mut p = start;
    while p < stop {
        N_GUARDS += 1;
        *p = N_GUARDS;
        p = p.add(1);
    }
}

#[no_mangle]
pub unsafe extern "C" fn __sanitizer_cov_pcs_init(beg: *const usize, _end: *const usize) {
    if PCS.is_null() {
        PCS = beg;
    }
}

#[no_mangle]
pub unsafe extern "C" fn __sanitizer_cov_trace_pc_guard(guard: *mut u32) {
    if !ARMED {
        return;
    }
    let id = *guard;
    LAST_GUARD = id;
    let i = N_E;
    if i >= CAP {
        OVERFLOW = true;
    } else if COMPARE {
        if DIV_E < 0 && (i >= REF_N_E || *REF_E.get_unchecked(i) != id) {
            DIV_E = i as isize;
            DIV_E_GOT = id;
        }
    } else {
        *REF_E.get_unchecked_mut(i) = id;
    }
    N_E = i + 1;
}

macro_rules! mem_cb {
    ($name:ident, $code:expr) => {
        #[no_mangle]
        pub unsafe extern "C" fn $name(addr: *const u8) {
            if !ARMED {
                return;
            }
            let v: u64 = ((addr as u64) << 8) | $code;
            let i = N_M;
            if i >= CAP {
                OVERFLOW = true;
            } else if COMPARE {
                if DIV_M < 0 && (i >= REF_N_M || *REF_M.get_unchecked(i) != v) {
                    DIV_M = i as isize;
                    DIV_M_GOT = v;
                    DIV_M_GUARD = LAST_GUARD;
                }
            } else {
                *REF_M.get_unchecked_mut(i) = v;
            }
            N_M = i + 1;
        }
    };
}
mem_cb!(__sanitizer_cov_load1, 0x02);
mem_cb!(__sanitizer_cov_load2, 0x04);
mem_cb!(__sanitizer_cov_load4, 0x08);
mem_cb!(__sanitizer_cov_load8, 0x10);
mem_cb!(__sanitizer_cov_load16, 0x20);
mem_cb!(__sanitizer_cov_store1, 0x03);
mem_cb!(__sanitizer_cov_store2, 0x05);
mem_cb!(__sanitizer_cov_store4, 0x09);
mem_cb!(__sanitizer_cov_store8, 0x11);
mem_cb!(__sanitizer_cov_store16, 0x21);

// ---------------------------------------------------------------------------------------------
// Inputs live in statics (fixed addresses); nothing is allocated while armed.

const N_I32: usize = 256 * 24;
const N_U8: usize = 8192;
static mut IN_I32: [i32; N_I32] = [0; N_I32];
static mut IN_U8: [u8; N_U8] = [0; N_U8];
/// public operands (matrix A), filled once per kernel while unarmed
static mut PUB_I32: [i32; 256 * 64] = [0; 256 * 64];

struct StaticRng {
    pos: usize,
}
impl RngCore for StaticRng {
    fn next_u32(&mut self) -> u32 { unimplemented!() }
    fn next_u64(&mut self) -> u64 { unimplemented!() }
    fn fill_bytes(&mut self, _out: &mut [u8]) { unimplemented!() }
    fn try_fill_bytes(&mut self, out: &mut [u8]) -> Result<(), rand_core::Error> {
        for (i, o) in out.iter_mut().enumerate() {
            *o = unsafe { IN_U8[self.pos + i] };
        }
        self.pos += out.len();
        Ok(())
    }
}
impl CryptoRng for StaticRng {}

const Q: i32 = 8_380_417;
const G44: i32 = (Q - 1) / 88;
const G65: i32 = (Q - 1) / 32;

fn poly(off: usize) -> [i32; 256] { core::array::from_fn(|i| unsafe { IN_I32[off * 256 + i] }) }
fn polys<const N: usize>(off: usize) -> [[i32; 256]; N] { core::array::from_fn(|j| poly(off + j)) }

struct Kernel {
    name: String,
    set: u32,
    /// number of secret i32 inputs and their inclusive range
    n_i32: usize,
    lo: i32,
    hi: i32,
    specials: Vec<i32>,
    /// number of secret byte inputs
    n_u8: usize,
    /// secret-independent preparation of the public operands
    prep: Box<dyn Fn()>,
    run: Box<dyn Fn()>,
    heavy: bool,
}

fn noprep() -> Box<dyn Fn()> { Box::new(|| {}) }

fn coeff_kernel(name: &str, set: u32, polys_n: usize, lo: i32, hi: i32, specials: Vec<i32>, run: Box<dyn Fn()>) -> Kernel {
    Kernel { name: name.to_string(), set, n_i32: 256 * polys_n, lo, hi, specials, n_u8: 0, prep: noprep(), run, heavy: false }
}

macro_rules! set_kernels {
    ($v:ident, $id:expr, $m:ident, $K:expr, $L:expr, $LD4:expr, $eta:expr, $gamma1:expr, $gamma2:expr, $omega:expr, $tau:expr, $beta:expr) => {{
        // whole pipeline: key generation + signing in constant-time test mode
        $v.push(Kernel {
            name: "pipeline:dudect_keygen_sign_with_rng".into(),
            set: $id,
            n_i32: 0,
            lo: 0,
            hi: 0,
            specials: vec![],
            n_u8: 64,
            prep: noprep(),
            run: Box::new(|| {
                let mut rng = StaticRng { pos: 0 };
                #[allow(deprecated)]
                let r = fips204::$m::dudect_keygen_sign_with_rng(&mut rng, b"constant-time test message");
                let _ = black_box(r);
            }),
            heavy: true,
        });
        let g1: i32 = $gamma1;
        let g2: i32 = $gamma2;
        let bound_z = g1 - $beta;
        $v.push(coeff_kernel("infinity_norm(z)", $id, $L, -(Q - 1), Q - 1, vec![0, bound_z - 1, bound_z, -bound_z, (Q - 1) / 2, (Q + 1) / 2, -(Q - 1) / 2], Box::new(|| {
            let _ = black_box(hk::infinity_norm::<$L>(&polys::<$L>(0)));
        })));
        $v.push(coeff_kernel("infinity_norm(r0)", $id, $K, -g2, g2, vec![0, g2 - $beta - 1, g2 - $beta, -(g2 - $beta)], Box::new(|| {
            let _ = black_box(hk::infinity_norm::<$K>(&polys::<$K>(0)));
        })));
        $v.push(coeff_kernel("infinity_norm(ct0)", $id, $K, 0, Q - 1, vec![0, g2 - 1, g2, Q - g2, Q - g2 + 1, (Q - 1) / 2, (Q + 1) / 2], Box::new(|| {
            let _ = black_box(hk::infinity_norm::<$K>(&polys::<$K>(0)));
        })));
        $v.push(Kernel {
            name: "mat_vec_mul(A, secret)".into(),
            set: $id,
            n_i32: 256 * $L,
            lo: -(Q - 1),
            hi: Q - 1,
            specials: vec![0, 1, -1, (Q - 1) / 2, -(Q - 1) / 2],
            n_u8: 0,
            prep: Box::new(|| {
                let a = hk::expand_a::<false, $K, $L>(&[7u8; 32]);
                for i in 0..$K {
                    for j in 0..$L {
                        for n in 0..256 {
                            unsafe { PUB_I32[(i * $L + j) * 256 + n] = a[i][j][n] };
                        }
                    }
                }
            }),
            run: Box::new(|| {
                let a: [[[i32; 256]; $L]; $K] = core::array::from_fn(|i| core::array::from_fn(|j| core::array::from_fn(|n| unsafe { PUB_I32[(i * $L + j) * 256 + n] })));
                let _ = black_box(hk::mat_vec_mul::<$K, $L>(&a, &polys::<$L>(0)));
            }),
            heavy: false,
        });
        $v.push(coeff_kernel("power2round", $id, $K, 0, Q - 1, vec![0, 4095, 4096, 4097, 8191, 8192, Q - 1, Q - 4096, Q - 4097], Box::new(|| {
            let _ = black_box(hk::power2round::<$K>(&polys::<$K>(0)));
        })));
        $v.push(Kernel {
            name: "expand_mask(rho'')".into(),
            set: $id,
            n_i32: 0,
            lo: 0,
            hi: 0,
            specials: vec![],
            n_u8: 64,
            prep: noprep(),
            run: Box::new(|| {
                let rho: [u8; 64] = core::array::from_fn(|i| unsafe { IN_U8[i] });
                let _ = black_box(hk::expand_mask::<$L>($gamma1, &rho, 14));
            }),
            heavy: false,
        });
        $v.push(Kernel {
            name: "expand_s::<CTEST>(rho')".into(),
            set: $id,
            n_i32: 0,
            lo: 0,
            hi: 0,
            specials: vec![],
            n_u8: 64,
            prep: noprep(),
            run: Box::new(|| {
                let rho: [u8; 64] = core::array::from_fn(|i| unsafe { IN_U8[i] });
                let _ = black_box(hk::expand_s::<true, $K, $L>($eta, &rho));
            }),
            heavy: false,
        });
        $v.push(Kernel {
            name: "sample_in_ball::<CTEST>(c~)".into(),
            set: $id,
            n_i32: 0,
            lo: 0,
            hi: 0,
            specials: vec![],
            n_u8: $LD4,
            prep: noprep(),
            run: Box::new(|| {
                let c: [u8; $LD4] = core::array::from_fn(|i| unsafe { IN_U8[i] });
                let _ = black_box(hk::sample_in_ball::<true>($tau, &c));
            }),
            heavy: false,
        });
        // sig_encode::<CTEST>: z secret-dependent until released; h ignored in test mode
        $v.push(Kernel {
            name: "sig_encode::<CTEST>(c~, z, h)".into(),
            set: $id,
            n_i32: 256 * ($L + $K),
            // in test mode the norm rejection is neutralised, so z = y + c*s1 reaches +-(gamma1 + beta)
            lo: -(g1 + $beta),
            hi: g1 + $beta,
            specials: vec![0, 1, -1, g1, -g1 + 1, -g1, -g1 - 1, g1 + 1, bound_z, -bound_z, g1 + $beta, -(g1 + $beta)],
            n_u8: $LD4,
            prep: noprep(),
            run: Box::new(|| {
                let c: [u8; $LD4] = core::array::from_fn(|i| unsafe { IN_U8[i] });
                let z = polys::<$L>(0);
                // hint bits derived from the (secret-dependent) tail of the input: 0/1 with weight <= omega
                let mut h = [[0i32; 256]; $K];
                let mut w = 0;
                for i in 0..$K {
                    for j in 0..256 {
                        let bit = unsafe { IN_I32[($L + i) * 256 + j] } & 1;
                        let take = i32::from(w < $omega) & bit;
                        h[i][j] = take;
                        w += take;
                    }
                }
                let _ = black_box(hk::sig_encode::<true, $K, $L, $LD4, { fips204::$m::SIG_LEN }>($gamma1, $omega, &c, &z, &h));
            }),
            heavy: false,
        });
        $v.push(coeff_kernel("w1_encode", $id, $K, 0, (Q - 1) / (2 * g2) - 1, vec![0, 1, (Q - 1) / (2 * g2) - 1], Box::new(|| {
            let mut out = [0u8; 32 * $K * 6];
            let bits = hk::bit_length((Q - 1) / (2 * $gamma2) - 1);
            hk::w1_encode::<$K>($gamma2, &polys::<$K>(0), &mut out[..32 * $K * bits]);
            let _ = black_box(out);
        })));
    }};
}

fn kernels() -> Vec<Kernel> {
    let mut v: Vec<Kernel> = Vec::new();
    set_kernels!(v, 44, ml_dsa_44, 4, 4, 32, 2, 1 << 17, G44, 80, 39, 78);
    set_kernels!(v, 65, ml_dsa_65, 6, 5, 48, 4, 1 << 19, G65, 55, 49, 196);
    set_kernels!(v, 87, ml_dsa_87, 8, 7, 64, 2, 1 << 19, G65, 75, 60, 120);
    let wide = vec![0, 1, -1, Q, -Q, Q - 1, -(Q - 1), (Q - 1) / 2, (Q + 1) / 2, -(Q - 1) / 2, -(Q + 1) / 2, 1 << 22, (1 << 22) - 1, -(1 << 22), 1 << 23, 2 * Q, -2 * Q];
    v.push(coeff_kernel("center_mod", 0, 1, -(8 * Q), 8 * Q, wide.clone(), Box::new(|| {
        let p = poly(0);
        let out: [i32; 256] = core::array::from_fn(|i| hk::center_mod(p[i]));
        let _ = black_box(out);
    })));
    v.push(coeff_kernel("partial_reduce32", 0, 1, -2_143_289_343, 2_143_289_343, wide.clone(), Box::new(|| {
        let p = poly(0);
        let out: [i32; 256] = core::array::from_fn(|i| hk::partial_reduce32(p[i]));
        let _ = black_box(out);
    })));
    v.push(coeff_kernel("full_reduce32", 0, 1, -2_143_289_343, 2_143_289_343, wide.clone(), Box::new(|| {
        let p = poly(0);
        let out: [i32; 256] = core::array::from_fn(|i| hk::full_reduce32(p[i]));
        let _ = black_box(out);
    })));
    v.push(coeff_kernel("to_mont(partial_reduce64)", 0, 1, -67_058_538, 67_058_538, wide.clone(), Box::new(|| {
        let _ = black_box(hk::to_mont::<1>(&[poly(0)]));
    })));
    v.push(coeff_kernel("mont_reduce(x*y)", 0, 2, -(Q - 1), Q - 1, wide.iter().copied().filter(|x| x.abs() < Q).collect(), Box::new(|| {
        let (a, b) = (poly(0), poly(1));
        let out: [i32; 256] = core::array::from_fn(|i| hk::mont_reduce(i64::from(a[i]) * i64::from(b[i])));
        let _ = black_box(out);
    })));
    for (nm, lo, hi) in [("ntt(eta)", -4, 4), ("ntt(t0)", -4095, 4096), ("ntt(gamma1)", -(1 << 19) + 1, 1 << 19)] {
        v.push(coeff_kernel(nm, 0, 1, lo, hi, vec![0, 1, -1, lo, hi], Box::new(|| {
            let _ = black_box(hk::ntt::<1>(&[poly(0)]));
        })));
    }
    v.push(coeff_kernel("inv_ntt", 0, 1, -8 * Q, 8 * Q, wide.clone(), Box::new(|| {
        let _ = black_box(hk::inv_ntt::<1>(&[poly(0)]));
    })));
    v.push(coeff_kernel("add_vector_ntt", 0, 2, -(Q - 1), Q - 1, vec![0, Q - 1, -(Q - 1)], Box::new(|| {
        let _ = black_box(hk::add_vector_ntt::<1>(&[poly(0)], &[poly(1)]));
    })));
    for (nm, g2) in [("g44", G44), ("g65_87", G65)] {
        let sp: Vec<i32> = {
            let mut s = vec![0, 1, -1, Q - 1, -(Q - 1), g2, g2 + 1, g2 - 1, 2 * g2, 2 * g2 + 1, 2 * g2 - 1, Q - 1 - g2, Q - g2, Q - g2 + 1, (Q - 1) / 2, (Q + 1) / 2];
            for k in 1..6 {
                s.extend([2 * g2 * k + g2, 2 * g2 * k + g2 + 1, 2 * g2 * k - g2, 2 * g2 * k - g2 + 1]);
            }
            s
        };
        v.push(coeff_kernel(&format!("decompose/high_bits/low_bits:{nm}"), 0, 1, -(Q - 1), Q - 1, sp.clone(), Box::new(move || {
            let p = poly(0);
            let out: [(i32, i32, i32, i32); 256] = core::array::from_fn(|i| {
                let (a, b) = hk::decompose(g2, p[i]);
                (a, b, hk::high_bits(g2, p[i]), hk::low_bits(g2, p[i]))
            });
            let _ = black_box(out);
        })));
        v.push(coeff_kernel(&format!("make_hint:{nm}"), 0, 2, 0, Q - 1, sp.iter().copied().filter(|x| *x >= 0).collect(), Box::new(move || {
            // caller's shape: z = q - ct0 in (0, q], r in (-q, q)
            let (a, b) = (poly(0), poly(1));
            let out: [bool; 256] = core::array::from_fn(|i| hk::make_hint(g2, Q - a[i], b[i] - (Q - 1) / 2));
            let _ = black_box(out);
        })));
    }
    for (nm, a, b, slack) in [("bit_pack(eta=2)", 2, 2, 0), ("bit_pack(eta=4)", 4, 4, 0), ("bit_pack(t0)", 4095, 4096, 0), ("bit_pack(gamma1=2^17, test-mode z)", (1 << 17) - 1, 1 << 17, 78), ("bit_pack(gamma1=2^19, test-mode z)", (1 << 19) - 1, 1 << 19, 196)] {
        // `slack`: in test mode z is packed without the norm rejection, so it can leave [-a, b] by up to beta
        v.push(coeff_kernel(nm, 0, 1, -a - slack, b + slack, vec![0, -a, b, 1, -1, -a - 1, b + 1, -a - slack, b + slack], Box::new(move || {
            let mut out = [0u8; 32 * 20];
            let bits = hk::bit_length(a + b);
            hk::bit_pack(&poly(0), a, b, &mut out[..32 * bits]);
            let _ = black_box(out);
        })));
    }
    v.push(Kernel {
        name: "coeff_from_three_bytes::<CTEST>".into(),
        set: 0,
        n_i32: 0,
        lo: 0,
        hi: 0,
        specials: vec![],
        n_u8: 768,
        prep: noprep(),
        run: Box::new(|| {
            let out: [i32; 256] = core::array::from_fn(|i| unsafe { hk::coeff_from_three_bytes::<true>([IN_U8[3 * i], IN_U8[3 * i + 1], IN_U8[3 * i + 2]]).unwrap_or(-1) });
            let _ = black_box(out);
        }),
        heavy: false,
    });
    for eta in [2, 4] {
        v.push(Kernel {
            name: format!("coeff_from_half_byte::<CTEST>(eta={eta})"),
            set: 0,
            n_i32: 0,
            lo: 0,
            hi: 0,
            specials: vec![],
            n_u8: 256,
            prep: noprep(),
            run: Box::new(move || {
                let out: [i32; 256] = core::array::from_fn(|i| unsafe { hk::coeff_from_half_byte::<true>(eta, IN_U8[i] & 0x0F).unwrap_or(-9) });
                let _ = black_box(out);
            }),
            heavy: false,
        });
    }
    v
}

// ---------------------------------------------------------------------------------------------
// Input generation (deterministic from seed, kernel index and case index)

/// key-generation seeds with rare sampler events (corpus/xof_extremes, found by an offline SHAKE-only search): in
/// test mode the samplers must take the same path for them as for any other seed
fn rare_seeds(set: u32) -> &'static [[u8; 32]] {
    static C: std::sync::OnceLock<Vec<(u32, [u8; 32])>> = std::sync::OnceLock::new();
    let all = C.get_or_init(|| {
        let root = std::env::var("VERIF_ROOT").unwrap_or_else(|_| "/verif".to_string());
        let mut out = Vec::new();
        for s in [44u32, 65, 87] {
            if let Ok(t) = std::fs::read_to_string(format!("{root}/corpus/xof_extremes/set{s}.json")) {
                if let Ok(Value::Array(a)) = serde_json::from_str::<Value>(&t) {
                    for e in a {
                        if let Some(Ok(b)) = e["xi"].as_str().map(hex::decode) {
                            if b.len() == 32 {
                                out.push((s, core::array::from_fn(|i| b[i])));
                            }
                        }
                    }
                }
            }
        }
        out
    });
    static PER: std::sync::OnceLock<std::collections::HashMap<u32, Vec<[u8; 32]>>> = std::sync::OnceLock::new();
    PER.get_or_init(|| {
        let mut m: std::collections::HashMap<u32, Vec<[u8; 32]>> = std::collections::HashMap::new();
        for (s, x) in all {
            m.entry(*s).or_default().push(*x);
        }
        m
    })
    .get(&set)
    .map(Vec::as_slice)
    .unwrap_or(&[])
}

/// in-range polynomial whose forward NTT (lazy reduction) grows by about q/2 in every layer at output position 0:
/// the largest intermediate values an in-range input can produce (z[0] and z[2^k] only)
fn ntt_max_growth(bound: i64, negative: bool) -> [i32; 256] {
    let q = i64::from(Q);
    let pow = |mut b: i64, mut e: u64| -> i64 {
        let mut r = 1i64;
        b %= q;
        while e > 0 {
            if e & 1 == 1 {
                r = r * b % q;
            }
            b = b * b % q;
            e >>= 1;
        }
        r
    };
    let brv = |x: usize| -> u64 { (x as u8).reverse_bits() as u64 };
    let s: i64 = if negative { -1 } else { 1 };
    let mut z = [0i32; 256];
    z[0] = (s * bound) as i32;
    let (mut len, mut m) = (128usize, 1usize);
    while len >= 1 {
        let zeta = pow(1753, brv(m));
        let zinv = pow(zeta, (q - 2) as u64);
        let mut r = s * (q - 1) / 2;
        loop {
            let mut v = r.rem_euclid(q) * zinv % q;
            if v > q / 2 {
                v -= q;
            }
            if v.abs() <= bound {
                z[len] = v as i32;
                break;
            }
            r -= s;
        }
        len /= 2;
        m *= 2;
    }
    z
}

fn gen_inputs(k: &Kernel, seed: u64, kidx: usize, case: u64) -> (Vec<i32>, Vec<u8>, &'static str) {
    let mut s = [0u8; 32];
    s[..8].copy_from_slice(&seed.to_le_bytes());
    s[8..16].copy_from_slice(&(kidx as u64).to_le_bytes());
    s[16..24].copy_from_slice(&case.to_le_bytes());
    let mut r = rand_chacha::ChaCha8Rng::from_seed(s);
    let span = (i64::from(k.hi) - i64::from(k.lo) + 1) as u64;
    let uni = |r: &mut rand_chacha::ChaCha8Rng| -> i32 { (i64::from(k.lo) + (r.next_u64() % span) as i64) as i32 };
    let class = if case == 0 { 0 } else { 1 + (case - 1) % 8 };
    let mut ints = vec![0i32; k.n_i32];
    let mut bytes = vec![0u8; k.n_u8];
    // whole-pipeline kernels: the first cases use the rare-sampler corpus seeds as the generator's first 32 bytes
    if k.name.starts_with("pipeline") && case >= 1 {
        let rare = rare_seeds(k.set);
        if (case as usize) <= rare.len() && k.n_u8 >= 32 {
            r.fill_bytes(&mut bytes);
            bytes[..32].copy_from_slice(&rare[case as usize - 1]);
            return (ints, bytes, "rare-sampler seed (corpus)");
        }
    }
    // transforms: every 40th case is the aligned maximal-growth polynomial for the kernel's range
    if k.name.starts_with("ntt(") && k.n_i32 >= 256 && case % 40 == 39 {
        let z = ntt_max_growth(i64::from(k.hi.min(-k.lo)).max(1), (case / 40) % 2 == 1);
        ints[..256].copy_from_slice(&z);
        return (ints, bytes, "aligned maximal growth");
    }
    let cname = match class {
        0 | 1 => {
            ints.iter_mut().for_each(|x| *x = uni(&mut r));
            r.fill_bytes(&mut bytes);
            "uniform"
        }
        2 => {
            ints.iter_mut().for_each(|x| *x = k.lo);
            "all_min / all-00"
        }
        3 => {
            ints.iter_mut().for_each(|x| *x = k.hi);
            bytes.iter_mut().for_each(|b| *b = 0xFF);
            "all_max / all-FF"
        }
        4 => {
            if !bytes.is_empty() {
                let bit = (r.next_u32() as usize) % (bytes.len() * 8);
                bytes[bit / 8] = 1 << (bit % 8);
            }
            "zero / single-bit"
        }
        5 => {
            if !ints.is_empty() {
                ints[0] = k.hi;
                let n = ints.len();
                ints[n - 1] = k.lo;
            }
            r.fill_bytes(&mut bytes);
            "extremes at both ends"
        }
        6 => {
            for (i, x) in ints.iter_mut().enumerate() {
                *x = if i % 2 == 0 { k.hi } else { k.lo };
            }
            for (i, b) in bytes.iter_mut().enumerate() {
                *b = if i % 2 == 0 { 0xAA } else { 0x55 };
            }
            "alternating"
        }
        7 => {
            // values straddling the kernel's internal thresholds
            for x in ints.iter_mut() {
                *x = if k.specials.is_empty() { uni(&mut r) } else { k.specials[(r.next_u32() as usize) % k.specials.len()].clamp(k.lo, k.hi) };
            }
            r.fill_bytes(&mut bytes);
            "threshold values"
        }
        _ => {
            for x in ints.iter_mut() {
                *x = if r.next_u32() % 4 == 0 && !k.specials.is_empty() { k.specials[(r.next_u32() as usize) % k.specials.len()].clamp(k.lo, k.hi) } else { uni(&mut r) };
            }
            r.fill_bytes(&mut bytes);
            "uniform + thresholds"
        }
    };
    (ints, bytes, cname)
}

fn stage(ints: &[i32], bytes: &[u8]) {
    unsafe {
        IN_I32[..ints.len()].copy_from_slice(ints);
        IN_U8[..bytes.len()].copy_from_slice(bytes);
    }
}

#[inline(never)]
fn armed_run(k: &Kernel, compare: bool) {
    unsafe {
        N_E = 0;
        N_M = 0;
        DIV_E = -1;
        DIV_M = -1;
        COMPARE = compare;
        ARMED = true;
    }
    (k.run)();
    unsafe {
        ARMED = false;
        if !compare {
            REF_N_E = N_E;
            REF_N_M = N_M;
        }
    }
}

#[derive(Clone, Debug)]
struct Divergence {
    kind: &'static str,
    index: isize,
    guard: u32,
    pc: usize,
    detail: String,
}

fn divergence() -> Option<Divergence> {
    unsafe {
        let pc_of = |g: u32| -> usize {
            if PCS.is_null() || g == 0 {
                0
            } else {
                *PCS.add(2 * (g as usize - 1))
            }
        };
        if DIV_E >= 0 || N_E != REF_N_E {
            let idx = if DIV_E >= 0 { DIV_E } else { REF_N_E.min(N_E) as isize };
            let expected = if (idx as usize) < REF_N_E { REF_E[idx as usize] } else { 0 };
            let prev = if idx > 0 { REF_E[idx as usize - 1] } else { 0 };
            return Some(Divergence {
                kind: "branch",
                index: idx,
                guard: prev,
                pc: pc_of(prev),
                detail: format!("edge #{idx}: reference took edge {expected} (pc {:#x}), this input took edge {} (pc {:#x}); trace lengths {} vs {}", pc_of(expected), DIV_E_GOT, pc_of(DIV_E_GOT), REF_N_E, N_E),
            });
        }
        if DIV_M >= 0 || N_M != REF_N_M {
            let idx = if DIV_M >= 0 { DIV_M } else { REF_N_M.min(N_M) as isize };
            let expected = if (idx as usize) < REF_N_M { REF_M[idx as usize] } else { 0 };
            return Some(Divergence {
                kind: "memory address",
                index: idx,
                guard: DIV_M_GUARD,
                pc: pc_of(DIV_M_GUARD),
                detail: format!("access #{idx}: reference touched address {:#x} (code {:#x}), this input touched {:#x} (code {:#x}); last edge {}", expected >> 8, expected & 0xFF, DIV_M_GOT >> 8, DIV_M_GOT & 0xFF, DIV_M_GUARD),
            });
        }
        None
    }
}

fn load_base() -> usize {
    let maps = std::fs::read_to_string("/proc/self/maps").unwrap_or_default();
    let exe = std::env::current_exe().ok().and_then(|p| p.to_str().map(str::to_string)).unwrap_or_default();
    for line in maps.lines() {
        if line.ends_with(&exe) {
            if let Some(a) = line.split('-').next() {
                return usize::from_str_radix(a, 16).unwrap_or(0);
            }
        }
    }
    0
}

fn main() {
    let args: Vec<String> = std::env::args().collect();
    let get = |n: &str| args.iter().position(|a| a == n).and_then(|i| args.get(i + 1).cloned());
    let seed: u64 = get("--seed").and_then(|s| s.parse().ok()).unwrap_or(204);
    let thorough = get("--tier").as_deref() == Some("thorough");
    let report = get("--report");
    let only = get("--kernel");
    let t0 = std::time::Instant::now();
    let ks = kernels();
    let base = load_base();
    let mut subs = serde_json::Map::new();
    let mut violations: Vec<Value> = Vec::new();
    let (mut total_eval, mut total_nontrivial) = (0u64, 0u64);
    for (kidx, k) in ks.iter().enumerate() {
        let label = if k.set == 0 { k.name.clone() } else { format!("set{}:{}", k.set, k.name) };
        if let Some(o) = &only {
            if !label.contains(o.as_str()) {
                continue;
            }
        }
        let cases: u64 = match (thorough, k.heavy) {
            (false, true) => 200,
            (false, false) => 3000,
            (true, true) => 1500,
            (true, false) => 20_000,
        };
        (k.prep)();
        // warm-up (one-time initialisation such as CPU feature detection), then the reference run
        let (ri, rb, _) = gen_inputs(k, seed, kidx, 0);
        stage(&ri, &rb);
        (k.run)();
        armed_run(k, false);
        let (ref_e, ref_m) = unsafe { (REF_N_E, REF_N_M) };
        // the reference input must reproduce its own trace (otherwise the observation itself is unstable)
        armed_run(k, true);
        if let Some(d) = divergence() {
            eprintln!("INCONCLUSIVE: kernel {label}: the reference input does not reproduce its own trace ({})", d.detail);
            std::process::exit(2);
        }
        let mut classes = serde_json::Map::new();
        let mut samples: Vec<Value> = Vec::new();
        let mut nontrivial = 0u64;
        let mut found = false;
        for case in 1..=cases {
            let (ci, cb, cname) = gen_inputs(k, seed, kidx, case);
            if ci == ri && cb == rb {
                continue;
            }
            nontrivial += 1;
            stage(&ci, &cb);
            armed_run(k, true);
            let e = classes.entry(cname.to_string()).or_insert(json!(0));
            *e = json!(e.as_u64().unwrap_or(0) + 1);
            if samples.len() < 3 {
                samples.push(json!({"kernel": label, "class": cname, "ints_head": &ci[..ci.len().min(6)], "bytes_head": hex::encode(&cb[..cb.len().min(16)])}));
            }
            if unsafe { OVERFLOW } {
                eprintln!("INCONCLUSIVE: kernel {label}: trace buffer overflow");
                std::process::exit(2);
            }
            if let Some(d0) = divergence() {
                if found {
                    continue;
                }
                found = true;
                // shrink: move the input toward the reference input while the divergence persists
                let (mut si, mut sb) = (ci.clone(), cb.clone());
                let mut budget = 3000;
                for i in 0..si.len() {
                    if budget == 0 {
                        break;
                    }
                    if si[i] != ri[i] {
                        let keep = si[i];
                        si[i] = ri[i];
                        stage(&si, &sb);
                        armed_run(k, true);
                        budget -= 1;
                        if divergence().is_none() {
                            si[i] = keep;
                        }
                    }
                }
                for i in 0..sb.len() {
                    if budget == 0 {
                        break;
                    }
                    if sb[i] != rb[i] {
                        let keep = sb[i];
                        sb[i] = rb[i];
                        stage(&si, &sb);
                        armed_run(k, true);
                        budget -= 1;
                        if divergence().is_none() {
                            sb[i] = keep;
                        }
                    }
                }
                stage(&si, &sb);
                armed_run(k, true);
                let d = divergence().unwrap_or(d0);
                let diff_i: Vec<Value> = (0..si.len()).filter(|&i| si[i] != ri[i]).take(8).map(|i| json!({"index": i, "reference": ri[i], "value": si[i]})).collect();
                let diff_b: Vec<Value> = (0..sb.len()).filter(|&i| sb[i] != rb[i]).take(8).map(|i| json!({"index": i, "reference": rb[i], "value": sb[i]})).collect();
                violations.push(json!({
                    "sub": label,
                    "key": format!("trace_diverges:{}:{}", label, d.kind),
                    "what": format!("{label}: {} trace depends on the secret input ({}); offset of the preceding edge in the binary: {:#x}", d.kind, d.detail, d.pc.saturating_sub(base)),
                    "pc_offset": d.pc.saturating_sub(base),
                    "guard": d.guard,
                    "index": d.index,
                    "case": {"kernel": label, "seed": seed, "case_index": case, "class": cname,
                              "differing_ints_after_shrink": diff_i, "differing_bytes_after_shrink": diff_b,
                              "n_differing_ints": (0..si.len()).filter(|&i| si[i] != ri[i]).count(),
                              "n_differing_bytes": (0..sb.len()).filter(|&i| sb[i] != rb[i]).count()},
                }));
            }
        }
        total_eval += cases + 2;
        total_nontrivial += nontrivial;
        let _ = subs.insert(label.clone(), json!({
            "evaluations": cases + 2, "distinct_nontrivial": nontrivial, "exhaustive": false,
            "classes": classes, "maxima": {"edges_per_run": ref_e, "memory_accesses_per_run": ref_m},
            "samples": {"inputs": samples},
        }));
    }
    let out = json!({
        "property_id": "C14", "profile": "sancov", "tier": if thorough { "thorough" } else { "quick" }, "seed": seed,
        "evaluations": total_eval, "distinct_nontrivial": total_nontrivial, "subs": subs, "violations": violations,
        "assumptions": [
            "the trace is taken at LLVM-IR level after optimisation (opt-level 3, x86-64): every CFG edge and every load/store address of all crates in the binary; a select later lowered to a branch, micro-architectural effects and variable-latency instructions are invisible",
            "inputs are staged in statics and nothing is allocated while armed, so addresses are comparable between runs of one process",
            "rustc/LLVM sanitizer-coverage instrumentation is trusted"],
        "notes": [format!("{} kernels, instrumented guards: {}", ks.len(), unsafe { N_GUARDS })],
        "inconclusive": Value::Null, "wall_s": t0.elapsed().as_secs_f64(),
    });
    if let Some(p) = report {
        std::fs::write(p, serde_json::to_string_pretty(&out).unwrap()).expect("write report");
    }
    eprintln!("[C14 sancov] kernels={} evaluations={} nontrivial={} violations={} wall={:.1}s", subs_len(&out), total_eval, total_nontrivial, violations.len(), t0.elapsed().as_secs_f64());
    for v in &violations {
        eprintln!("  violation {}", v["what"].as_str().unwrap_or(""));
    }
    std::process::exit(if violations.is_empty() { 0 } else { 1 });
}

fn subs_len(v: &Value) -> usize { v["subs"].as_object().map_or(0, serde_json::Map::len) }
