"""C14 engine: sanitizer-coverage trace comparison (see cttrace/src/main.rs)."""
import json
import os
import shutil
import subprocess
import time

RUSTFLAGS = ("-Cpasses=sancov-module -Cllvm-args=-sanitizer-coverage-level=3 "
             "-Cllvm-args=-sanitizer-coverage-trace-pc-guard -Cllvm-args=-sanitizer-coverage-trace-loads "
             "-Cllvm-args=-sanitizer-coverage-trace-stores -Cllvm-args=-sanitizer-coverage-pc-table")
TARGET = "x86_64-unknown-linux-gnu"


def symbolize(exe, offset):
    tool = shutil.which("llvm-symbolizer") or shutil.which("llvm-symbolizer-14")
    if not tool or not offset:
        return ""
    try:
        out = subprocess.run([tool, "--obj=" + exe, "--functions=short", "--inlines", hex(offset)],
                             stdout=subprocess.PIPE, stderr=subprocess.DEVNULL, text=True, timeout=60).stdout
        lines = [l.strip() for l in out.splitlines() if l.strip()]
        return " <- ".join(lines[:6])
    except Exception:
        return ""


def main(chk, pid, tier, seed, replay):
    t0 = time.time()
    env = chk.env_base()
    env["RUSTFLAGS"] = RUSTFLAGS
    tdir = os.path.join(chk.WORK, "target-sancov")
    env["CARGO_TARGET_DIR"] = tdir
    rc, out, _ = chk.run(["cargo", "+nightly", "build", "--release", "--target", TARGET],
                         cwd=os.path.join(chk.ROOT, "cttrace"), env=env, quiet=True, timeout=3600)
    if rc != 0:
        print("\n".join(out.splitlines()[-40:]))
        chk.inconclusive("cttrace (sanitizer-coverage build, nightly) failed to build")
    exe = os.path.join(tdir, TARGET, "release", "cttrace")
    os.makedirs(os.path.join(chk.WORK, "reports"), exist_ok=True)
    rpath = os.path.join(chk.WORK, "reports", f"C14.sancov.{os.getpid()}.json")
    cmd = [exe, "--tier", tier, "--seed", str(seed), "--report", rpath]
    if replay:
        rp = json.load(open(replay))
        cmd += ["--kernel", rp["case"]["kernel"]]
        cmd[cmd.index("--seed") + 1] = str(rp.get("seed", seed))
        if rp.get("tier") in ("quick", "thorough"):
            cmd[cmd.index("--tier") + 1] = rp["tier"]
    rc, out, _ = chk.run(cmd, cwd=chk.ROOT, timeout=3 * 3600)
    if rc not in (0, 1) or not os.path.exists(rpath):
        chk.inconclusive(f"cttrace exited with status {rc}")
    rep = json.load(open(rpath))
    os.remove(rpath)
    for v in rep.get("violations", []):
        sym = symbolize(exe, v.get("pc_offset", 0))
        if sym:
            v["what"] += f"; symbolised: {sym}"
            v["case"]["symbolised"] = sym
    if replay:
        bad = rep.get("violations", [])
        if bad:
            print(f"VIOLATION property={pid} replay={os.path.abspath(replay)}")
            print("  what: " + bad[0]["what"][:800])
            return 1
        print(f"{pid} replay {replay}: no longer fails")
        return 0
    return chk.finalize(pid, tier, seed, chk.META[pid]["level"], [rep], None, time.time() - t0)
