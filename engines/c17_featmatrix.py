"""C17 engine: every supported feature combination builds (warnings denied by the crate itself)
and each enabled parameter set behaves as in the default configuration and as the reference."""
import itertools
import json
import os
import subprocess
import time
from concurrent.futures import ThreadPoolExecutor

SETS = ["ml-dsa-44", "ml-dsa-65", "ml-dsa-87"]


def configs():
    out = []
    for r in (1, 2, 3):
        for sub in itertools.combinations(SETS, r):
            for rng in (False, True):
                for dud in (False, True):
                    f = list(sub) + (["default-rng"] if rng else []) + (["dudect"] if dud else [])
                    out.append(f)
    return out


def parse(out):
    d = {}
    for line in out.splitlines():
        parts = dict(kv.split("=", 1) for kv in line.split() if "=" in kv)
        if "set" in parts:
            for k, v in parts.items():
                if k != "set":
                    d[(parts["set"], k)] = v
    return d


def main(chk, pid, tier, seed, replay):
    t0 = time.time()
    cases = 400 if tier == "quick" else 4000
    profiles = ["dev"] if tier == "quick" else ["dev", "release"]
    cfgs = configs()
    if replay:
        rp = json.load(open(replay))
        want = rp["case"].get("features")
        cfgs = [c for c in cfgs if c == want] or cfgs
        seed = rp.get("seed", seed)
    workers = 4
    env0 = chk.env_base()
    fdir = os.path.join(chk.ROOT, "featprobe")
    # rare-event inputs from the corpora (offline SHAKE searches): key seeds and signature tuples
    os.makedirs(chk.WORK, exist_ok=True)
    rare_path = os.path.join(chk.WORK, "featprobe_rare.txt")
    n_rare = 0
    with open(rare_path, "w") as rf:
        for s in (44, 65, 87):
            for kind, sub in (("K", "xof_extremes"), ("S", "sig_extremes")):
                f = os.path.join(chk.ROOT, "corpus", sub, f"set{s}.json")
                if os.path.exists(f):
                    for e in json.load(open(f)):
                        n_rare += 1
                        if kind == "K":
                            rf.write(f"K {e['set']} {e['xi']}\n")
                        else:
                            rf.write(f"S {e['set']} {e['xi']} {e['msg']} {e['rnd']}\n")
    # crafted verification vectors (forged under t1 = 0, malformed hint encodings that keep the hinted set)
    exe, _ = chk.build_vcheck("plain")
    fv = subprocess.run([exe, "featvectors", str(seed)], stdout=subprocess.PIPE, stderr=subprocess.PIPE, text=True, env=env0)
    if fv.returncode != 0:
        chk.inconclusive("vcheck featvectors failed")
    with open(rare_path, "a") as rf:
        rf.write(fv.stdout)
    n_rare += fv.stdout.count("\nV ") + (1 if fv.stdout.startswith("V ") else 0)
    # reference digests
    exe, _ = chk.build_vcheck("plain")
    p = subprocess.run([exe, "featref", str(seed), str(cases), rare_path], stdout=subprocess.PIPE, stderr=subprocess.PIPE, text=True, env=env0)
    if p.returncode != 0:
        chk.inconclusive("vcheck featref failed")
    ref = parse(p.stdout)

    jobs = [(c, prof) for prof in profiles for c in cfgs]
    results = {}

    def work(args):
        idx, (feat, prof) = args
        w = idx % workers
        env = dict(env0)
        env["CARGO_TARGET_DIR"] = os.path.join(chk.WORK, "target-feat", str(w))
        env["CARGO_BUILD_JOBS"] = "4"
        cmd = ["cargo", "build", "--no-default-features", "--features", ",".join(feat)]
        if prof == "release":
            cmd.append("--release")
        b = subprocess.run(cmd, cwd=fdir, env=env, stdout=subprocess.PIPE, stderr=subprocess.STDOUT, text=True)
        if b.returncode != 0:
            return (tuple(feat), prof, "build_failed", b.stdout[-3000:])
        binp = os.path.join(env["CARGO_TARGET_DIR"], "debug" if prof == "dev" else "release", "featprobe")
        r = subprocess.run([binp, str(seed), str(cases), rare_path], stdout=subprocess.PIPE, stderr=subprocess.STDOUT, text=True, timeout=1800)
        if r.returncode != 0:
            return (tuple(feat), prof, "run_failed", r.stdout[-3000:])
        return (tuple(feat), prof, "ok", r.stdout)

    # jobs sharing a worker index run sequentially in that worker's target dir
    per_worker = [[(i, j) for i, j in enumerate(jobs) if i % workers == w] for w in range(workers)]

    def run_worker(lst):
        return [work(x) for x in lst]

    with ThreadPoolExecutor(max_workers=workers) as ex:
        for chunk in ex.map(run_worker, per_worker):
            for feat, prof, status, out in chunk:
                results[(feat, prof)] = (status, out)

    violations = []
    classes = {}
    samples = []
    n_ok = 0
    default_cfg = tuple(SETS + ["default-rng"])
    build_fail = [k for k, v in results.items() if v[0] == "build_failed"]
    if len(build_fail) == len(results):
        print(results[build_fail[0]][1][-1500:])
        chk.inconclusive("no feature configuration builds (the tree does not compile)")
    dud_ref = {}
    for (feat, prof), (status, out) in sorted(results.items()):
        label = ",".join(feat) + f"@{prof}"
        classes[f"{len([f for f in feat if f.startswith('ml-dsa')])} set(s)" + (" +default-rng" if "default-rng" in feat else "") + (" +dudect" if "dudect" in feat else "")] = \
            classes.get(f"{len([f for f in feat if f.startswith('ml-dsa')])} set(s)" + (" +default-rng" if "default-rng" in feat else "") + (" +dudect" if "dudect" in feat else ""), 0) + 1
        case = {"features": list(feat), "profile": prof}
        if status == "build_failed":
            tail = [l for l in out.splitlines() if l.startswith(("error", "warning")) or "-->" in l][:6]
            violations.append({"sub": "feature_matrix", "key": f"build_fails:{','.join(feat)}", "case": case,
                               "what": f"configuration [{label}] does not build without warnings: " + " | ".join(tail)})
            continue
        if status == "run_failed":
            violations.append({"sub": "feature_matrix", "key": f"probe_fails:{','.join(feat)}", "case": case,
                               "what": f"configuration [{label}]: featprobe aborted: {out[-400:]}"})
            continue
        got = parse(out)
        n_ok += 1
        if len(samples) < 6:
            samples.append({"features": list(feat), "profile": prof, "output": out.strip().splitlines()})
        for s in [f[-2:] for f in feat if f.startswith("ml-dsa")]:
            d = got.get((s, "digest"))
            if d != ref.get((s, "digest")):
                violations.append({"sub": "feature_matrix", "key": f"digest_differs:set{s}", "case": case,
                                   "what": f"configuration [{label}]: KAT digest of ML-DSA-{s} is {d}, the reference model (and the default configuration) give {ref.get((s, 'digest'))}"})
            bh = got.get((s, "behave"))
            if bh != ref.get((s, "behave")):
                violations.append({"sub": "feature_matrix", "key": f"behaviour_differs:set{s}", "case": case,
                                   "what": f"configuration [{label}]: API-behaviour digest of ML-DSA-{s} (derived/round-tripped key bytes, malformed-key rejection, 256-byte context handling, RNG-failure reporting, internal interface KAT, wipe on drop) is {bh}, expected {ref.get((s, 'behave'))}"})
            rr = got.get((s, "rare"))
            if rr != ref.get((s, "rare")):
                violations.append({"sub": "feature_matrix", "key": f"rare_event_digest_differs:set{s}", "case": case,
                                   "what": f"configuration [{label}]: keys / signatures of ML-DSA-{s} on the rare-event corpus (seeds with extreme RejNTTPoly / RejBoundedPoly streams, signatures with long SampleInBall re-draw runs or late loop iterations, crafted verification vectors, signatures of a crafted extreme-t0 private key) give digest {rr}, the reference model gives {ref.get((s, 'rare'))}"})
            if "dudect" in feat:
                dd = got.get((s, "dudect"))
                if dd == "panic":
                    # the test-mode entry point panicked in this (debug-assertions) build for this RNG value: that is
                    # C13's known finding F6, not a difference between configurations
                    classes["dudect entry point panicked (judged by C13)"] = classes.get("dudect entry point panicked (judged by C13)", 0) + 1
                elif s in dud_ref and dud_ref[s] != dd:
                    violations.append({"sub": "feature_matrix", "key": f"dudect_digest_differs:set{s}", "case": case,
                                       "what": f"configuration [{label}]: dudect_keygen_sign_with_rng output differs between configurations"})
                if dd != "panic":
                    dud_ref.setdefault(s, dd)
            if "default-rng" in feat and got.get((s, "osrng")) != "true":
                violations.append({"sub": "feature_matrix", "key": f"osrng_roundtrip_fails:set{s}", "case": case,
                                   "what": f"configuration [{label}]: try_keygen/try_sign/verify round trip failed"})
        extra = [k for k in got if k[0] not in [f[-2:] for f in feat]]
        if extra:
            violations.append({"sub": "feature_matrix", "key": "disabled_set_present", "case": case, "what": f"configuration [{label}] exposes a disabled set: {extra}"})

    # no_std: core-only builds of the library
    nostd = []
    if not replay:
        for feat in (SETS, SETS + ["default-rng"]):
            env = dict(env0)
            env["CARGO_TARGET_DIR"] = os.path.join(chk.WORK, "target-feat", "nostd")
            cmd = ["cargo", "+nightly", "build", "-Zbuild-std=core", "--target", "x86_64-unknown-linux-gnu", "--manifest-path", "/repo/Cargo.toml",
                   "--lib", "--no-default-features", "--features", ",".join(feat)]
            b = subprocess.run(cmd, env=env, stdout=subprocess.PIPE, stderr=subprocess.STDOUT, text=True)
            nostd.append({"features": feat, "ok": b.returncode == 0})
            if b.returncode != 0:
                if "fips204" not in b.stdout:
                    chk.inconclusive("-Zbuild-std=core build failed outside fips204: " + b.stdout[-600:])
                tail = [l for l in b.stdout.splitlines() if l.startswith("error") or "-->" in l][:6]
                violations.append({"sub": "no_std_build", "key": f"no_std_build_fails:{','.join(feat)}", "case": {"features": feat, "profile": "core-only"},
                                   "what": f"library does not build for a core-only target with features {feat}: " + " | ".join(tail)})

    uniq = {}
    for v in violations:
        uniq.setdefault(v["key"], v)
    rep = {
        "property_id": pid, "profile": "featmatrix", "tier": tier, "seed": seed,
        "evaluations": len(results) + len(nostd),
        "distinct_nontrivial": len([k for k in results if k[0] != default_cfg]) + len(nostd),
        "subs": {"feature_matrix": {"evaluations": len(results), "distinct_nontrivial": len([k for k in results if k[0] != default_cfg]),
                                    "exhaustive": not replay, "classes": classes, "maxima": {"configurations_ok": n_ok},
                                    "samples": {"configs": samples}},
                 "no_std_build": {"evaluations": len(nostd), "distinct_nontrivial": len(nostd), "exhaustive": True, "classes": {}, "maxima": {},
                                  "samples": {"builds": nostd}}},
        "violations": list(uniq.values()),
        "assumptions": ["builds use the host target plus one core-only (-Zbuild-std=core) build of the library for the two extreme configurations; other targets are not built",
                        "warnings are denied by the crate's own #![deny(warnings, dead_code, ...)] attributes (path dependencies are not lint-capped by cargo)",
                        "the dudect_keygen_sign_with_rng output is compared between configurations only (constant-time test mode is not a FIPS 204 function)"],
        "notes": [f"{len(cfgs)} configurations x profiles {profiles}, {cases} KAT cases per set, {n_rare} rare-event corpus entries"],
        "wall_s": time.time() - t0,
    }
    if replay:
        if rep["violations"]:
            print(f"VIOLATION property={pid} replay={os.path.abspath(replay)}")
            print("  what: " + rep["violations"][0]["what"][:800])
            return 1
        print(f"{pid} replay {replay}: no longer fails")
        return 0
    return chk.finalize(pid, tier, seed, chk.META[pid]["level"], [rep], None, time.time() - t0)
