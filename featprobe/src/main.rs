//! featprobe — C17: KAT digest of every enabled parameter set, printed one line per set.
//! The same digest is computed by the reference model (`vcheck featref`).
use rand_core::{CryptoRng, RngCore};
use sha2::{Digest, Sha256};

struct Replay([u8; 32], usize);
impl RngCore for Replay {
    fn next_u32(&mut self) -> u32 { unimplemented!() }
    fn next_u64(&mut self) -> u64 { unimplemented!() }
    fn fill_bytes(&mut self, _out: &mut [u8]) { unimplemented!() }
    fn try_fill_bytes(&mut self, out: &mut [u8]) -> Result<(), rand_core::Error> {
        for o in out.iter_mut() {
            *o = self.0[self.1 % 32];
            self.1 += 1;
        }
        Ok(())
    }
}
impl CryptoRng for Replay {}

/// fails on the first request (without writing), then behaves like `Replay`
struct FailOnce(Replay, bool);
impl RngCore for FailOnce {
    fn next_u32(&mut self) -> u32 { unimplemented!() }
    fn next_u64(&mut self) -> u64 { unimplemented!() }
    fn fill_bytes(&mut self, _out: &mut [u8]) { unimplemented!() }
    fn try_fill_bytes(&mut self, out: &mut [u8]) -> Result<(), rand_core::Error> {
        if !self.1 {
            self.1 = true;
            return Err(rand_core::Error::from(core::num::NonZeroU32::new(rand_core::Error::CUSTOM_START + 1).unwrap()));
        }
        self.0.try_fill_bytes(out)
    }
}
impl CryptoRng for FailOnce {}

/// write raw value `v` into the `idx`-th field of `bits` bits starting at byte offset `base`
fn set_field(buf: &mut [u8], base: usize, bits: usize, idx: usize, v: u32) {
    for b in 0..bits {
        let bit = base * 8 + idx * bits + b;
        if (v >> b) & 1 == 1 {
            buf[bit / 8] |= 1 << (bit % 8);
        } else {
            buf[bit / 8] &= !(1 << (bit % 8));
        }
    }
}

/// all bytes of the object's storage are zero after dropping it in place
fn wiped_after_drop<T>(v: T) -> bool {
    let mut slot = Box::new(core::mem::ManuallyDrop::new(v));
    let size = core::mem::size_of::<T>();
    let ptr = (&mut **slot as *mut T).cast::<u8>();
    unsafe { core::mem::ManuallyDrop::drop(&mut *slot) };
    (0..size).all(|i| unsafe { core::ptr::read_volatile(ptr.add(i)) } == 0)
}

fn h(tag: &str, seed: u64, set: u32, i: u32, j: u32) -> [u8; 32] {
    let mut s = Sha256::new();
    s.update(tag.as_bytes());
    s.update(seed.to_le_bytes());
    s.update(set.to_le_bytes());
    s.update(i.to_le_bytes());
    s.update(j.to_le_bytes());
    s.finalize().into()
}

#[allow(unused_macros)]
macro_rules! probe {
    ($m:ident, $set:expr, $seed:expr, $cases:expr, $eta:expr, $K:expr, $L:expr, $omega:expr) => {{
        use fips204::traits::{KeyGen, SerDes, Signer, Verifier};
        use fips204::Ph;
        let mut outer = Sha256::new();
        for i in 0..$cases {
            let mut d = Sha256::new();
            let xi = h("xi", $seed, $set, i, 0);
            let mfull = h("m", $seed, $set, i, 0);
            let m = &mfull[..(i as usize * 7) % 33];
            let cfull = h("c", $seed, $set, i, 0);
            let ctx = &cfull[..(i as usize) % 3];
            let (pk, sk) = fips204::$m::KG::keygen_from_seed(&xi);
            d.update(pk.clone().into_bytes());
            d.update(sk.clone().into_bytes());
            for j in 0..4u32 {
                let mut rng = Replay(h("rnd", $seed, $set, i, j), 0);
                let ph = match j {
                    1 => Some(Ph::SHA256),
                    2 => Some(Ph::SHA512),
                    3 => Some(Ph::SHAKE128),
                    _ => None,
                };
                let sig = match &ph {
                    None => sk.try_sign_with_rng(&mut rng, m, ctx).expect("sign"),
                    Some(p) => sk.try_hash_sign_with_rng(&mut rng, m, ctx, p).expect("hash sign"),
                };
                d.update(sig);
                let ver = |mm: &[u8], s: &[u8; fips204::$m::SIG_LEN]| -> bool {
                    match &ph {
                        None => pk.verify(mm, s, ctx),
                        Some(p) => pk.hash_verify(mm, s, ctx, p),
                    }
                };
                let v1 = ver(m, &sig);
                let mut bad = sig;
                bad[((i + j) as usize * 131) % bad.len()] ^= 1;
                let v2 = ver(m, &bad);
                let mut m2 = m.to_vec();
                m2.push(0);
                let v3 = ver(&m2, &sig);
                d.update([u8::from(v1), u8::from(v2), u8::from(v3)]);
                // malformed hint encodings of the genuine signature (repeated index, descending pair, non-zero slack,
                // count raised over a slack byte): every one must be rejected, in every configuration
                for k in 0..4u8 {
                    d.update([u8::from(ver(m, &hint_mutant(&sig, $omega, $K, k)))]);
                }
            }
            let di: [u8; 32] = d.finalize().into();
            outer.update(di);
        }
        let out: [u8; 32] = outer.finalize().into();
        println!("set={} digest={}", $set, hex(&out));
        // ---- behaviour digest: API behaviours beyond the KATs (must not depend on the configuration) ----
        if !kat_only() {
            let mut b = Sha256::new();
            let bits: usize = if $eta == 2 { 3 } else { 4 };
            let nfields: usize = ($K + $L) * 256;
            let nb = if $cases < 32 { $cases } else { 32 };
            for i in 0..nb {
                let xi = h("xi", $seed, $set, i, 0);
                let mfull = h("m", $seed, $set, i, 0);
                let m = &mfull[..(i as usize * 7) % 33];
                let (pk, sk) = fips204::$m::KG::keygen_from_seed(&xi);
                let skb = sk.clone().into_bytes();
                let pkb = pk.clone().into_bytes();
                b.update(sk.get_public_key().into_bytes());
                b.update(fips204::$m::PrivateKey::try_from_bytes(skb).expect("sk roundtrip").into_bytes());
                b.update(fips204::$m::PublicKey::try_from_bytes(pkb).expect("pk roundtrip").into_bytes());
                for v in (2 * $eta + 1)..(1u32 << bits) {
                    let mut bad = skb;
                    set_field(&mut bad, 128, bits, (i as usize * 131 + v as usize * 17) % nfields, v);
                    b.update([u8::from(fips204::$m::PrivateKey::try_from_bytes(bad).is_err())]);
                }
                let long = [0x5Au8; 256];
                let mut rng = Replay(h("rnd", $seed, $set, i, 0), 0);
                let sig0 = sk.try_sign_with_rng(&mut rng, m, &[]).expect("sign");
                let mut rng = Replay(h("rnd", $seed, $set, i, 0), 0);
                let e1 = sk.try_sign_with_rng(&mut rng, m, &long).is_err();
                let mut rng = Replay(h("rnd", $seed, $set, i, 0), 0);
                let e2 = sk.try_hash_sign_with_rng(&mut rng, m, &long, &Ph::SHA256).is_err();
                b.update([u8::from(e1), u8::from(e2), u8::from(pk.verify(m, &sig0, &long)), u8::from(pk.hash_verify(m, &sig0, &long, &Ph::SHA256))]);
                let mut fr = FailOnce(Replay(h("rnd", $seed, $set, i, 1), 0), false);
                let k_err = fips204::$m::try_keygen_with_rng(&mut fr).is_err();
                let mut fr = FailOnce(Replay(h("rnd", $seed, $set, i, 1), 0), false);
                let s_err = sk.try_sign_with_rng(&mut fr, m, &[]).is_err();
                let mut fr = FailOnce(Replay(h("rnd", $seed, $set, i, 1), 0), false);
                let hs_err = sk.try_hash_sign_with_rng(&mut fr, m, &[], &Ph::SHA512).is_err();
                b.update([u8::from(k_err), u8::from(s_err), u8::from(hs_err)]);
                #[allow(deprecated)]
                {
                    let si = fips204::$m::_internal_sign(&sk, m, &[], h("rnd", $seed, $set, i, 0)).expect("internal sign");
                    b.update(si);
                    b.update([u8::from(fips204::$m::_internal_verify(&pk, m, &si, &[]))]);
                }
                b.update([u8::from(wiped_after_drop(sk)), u8::from(wiped_after_drop(pk))]);
            }
            let outb: [u8; 32] = b.finalize().into();
            println!("set={} behave={}", $set, hex(&outb));
        }
        // ---- rare-event digest: corpus seeds / signature tuples (offline SHAKE searches), same stream as `vcheck featref` ----
        if !kat_only() {
            let mut r = Sha256::new();
            let mut crafted: Option<fips204::$m::PrivateKey> = None;
            for line in rare_lines() {
                let f: Vec<&str> = line.split(' ').collect();
                if f.len() < 3 || f[1].parse::<u32>().ok() != Some($set) {
                    continue;
                }
                if f[0] == "XK" {
                    // a crafted (accepted, inconsistent) private key: XK <set> <sk>
                    crafted = Some(fips204::$m::PrivateKey::try_from_bytes(unhex(f[2]).try_into().expect("sk length")).expect("crafted key accepted"));
                    continue;
                }
                if f[0] == "X" {
                    // sign with the crafted key: X <set> <msg> <rnd>; the signature bytes (or a marker for Err) are digested
                    let mut rng = Replay(unhex(f[3]).try_into().expect("rnd"), 0);
                    match crafted.as_ref().expect("XK line first").try_sign_with_rng(&mut rng, &unhex(f[2]), &[]) {
                        Ok(sig) => r.update(sig),
                        Err(_) => r.update([0xEEu8]),
                    }
                    continue;
                }
                if f[0] == "V" {
                    // crafted verification vector: V <set> <mode> <pk> <msg> <ctx> <sig>
                    let vpk = fips204::$m::PublicKey::try_from_bytes(unhex(f[3]).try_into().expect("pk length")).expect("pk");
                    let (vm, vctx) = (unhex(f[4]), unhex(f[5]));
                    let vsig: [u8; fips204::$m::SIG_LEN] = unhex(f[6]).try_into().expect("sig length");
                    let ok = match f[2] {
                        "1" => vpk.hash_verify(&vm, &vsig, &vctx, &Ph::SHA256),
                        "2" => vpk.hash_verify(&vm, &vsig, &vctx, &Ph::SHA512),
                        "3" => vpk.hash_verify(&vm, &vsig, &vctx, &Ph::SHAKE128),
                        _ => vpk.verify(&vm, &vsig, &vctx),
                    };
                    r.update([u8::from(ok)]);
                    continue;
                }
                let xi: [u8; 32] = unhex(f[2]).try_into().expect("xi");
                let (pk, sk) = fips204::$m::KG::keygen_from_seed(&xi);
                let (m, rnd): (Vec<u8>, [u8; 32]) = if f[0] == "S" { (unhex(f[3]), unhex(f[4]).try_into().expect("rnd")) } else { (b"rare".to_vec(), h("rare-rnd", $seed, $set, 0, 0)) };
                if f[0] == "K" {
                    r.update(pk.clone().into_bytes());
                    r.update(sk.clone().into_bytes());
                    r.update(sk.get_public_key().into_bytes());
                }
                let mut rng = Replay(rnd, 0);
                let sig = sk.try_sign_with_rng(&mut rng, &m, &[]).expect("sign");
                r.update(sig);
                r.update([u8::from(pk.verify(&m, &sig, &[]))]);
            }
            let outr: [u8; 32] = r.finalize().into();
            println!("set={} rare={}", $set, hex(&outr));
        }
        #[cfg(feature = "dudect")]
        {
            // the test-mode entry point panics for some RNG values in builds with debug assertions (known finding F6,
            // reported by C13): such a value is not a difference between configurations
            let r = std::panic::catch_unwind(|| {
                let mut rng = Replay(h("dudect", $seed, $set, 0, 0), 0);
                #[allow(deprecated)]
                let s = fips204::$m::dudect_keygen_sign_with_rng(&mut rng, b"dudect probe").expect("dudect");
                let dd: [u8; 32] = Sha256::digest(s).into();
                dd
            });
            match r {
                Ok(dd) => println!("set={} dudect={}", $set, hex(&dd)),
                Err(_) => println!("set={} dudect=panic", $set),
            }
        }
        #[cfg(feature = "default-rng")]
        if !kat_only() {
            let (pk, sk) = fips204::$m::try_keygen().expect("try_keygen");
            let s = sk.try_sign(b"os rng", &[1]).expect("try_sign");
            println!("set={} osrng={}", $set, pk.verify(b"os rng", &s, &[1]));
        }
    }};
}

/// fourth argument `kat-only`: only the KAT digest (used by the big-endian probe, which runs under an interpreter)
#[allow(dead_code)]
fn kat_only() -> bool { std::env::args().nth(4).as_deref() == Some("kat-only") }

/// the `k`-th malformation of the hint section of `sig` (unchanged if the signature has too few hints for it)
#[allow(dead_code)]
fn hint_mutant<const N: usize>(sig: &[u8; N], omega: usize, kk: usize, k: u8) -> [u8; N] {
    let mut s = *sig;
    let h = N - (omega + kk);
    let total = s[h + omega + kk - 1] as usize;
    // first polynomial with at least two hints: [start, end)
    let (mut start, mut found) = (0usize, None);
    for i in 0..kk {
        let end = s[h + omega + i] as usize;
        if end >= start + 2 && found.is_none() {
            found = Some(start);
        }
        start = end;
    }
    match (k, found) {
        (0, Some(a)) => s[h + a + 1] = s[h + a],
        (1, Some(a)) => s.swap(h + a, h + a + 1),
        (2, _) if total < omega => s[h + total] = 1,
        (3, _) if total < omega => s[h + omega + kk - 1] += 1,
        _ => {}
    }
    s
}

fn unhex(s: &str) -> Vec<u8> { (0..s.len() / 2).map(|i| u8::from_str_radix(&s[2 * i..2 * i + 2], 16).expect("hex")).collect() }

/// lines of the rare-event file (third argument): `K <set> <xi>` or `S <set> <xi> <msg> <rnd>`
#[allow(dead_code)]
fn rare_lines() -> Vec<String> {
    match std::env::args().nth(3) {
        Some(p) => std::fs::read_to_string(p).expect("rare-event file").lines().map(str::to_string).collect(),
        None => Vec::new(),
    }
}

fn hex(b: &[u8]) -> String { b.iter().map(|x| format!("{x:02x}")).collect() }

fn main() {
    let args: Vec<String> = std::env::args().collect();
    let seed: u64 = args.get(1).and_then(|s| s.parse().ok()).unwrap_or(204);
    let cases: u32 = args.get(2).and_then(|s| s.parse().ok()).unwrap_or(8);
    let _ = (seed, cases);
    #[cfg(feature = "ml-dsa-44")]
    probe!(ml_dsa_44, 44u32, seed, cases, 2, 4, 4, 80);
    #[cfg(feature = "ml-dsa-65")]
    probe!(ml_dsa_65, 65u32, seed, cases, 4, 6, 5, 55);
    #[cfg(feature = "ml-dsa-87")]
    probe!(ml_dsa_87, 87u32, seed, cases, 2, 8, 7, 75);
}
