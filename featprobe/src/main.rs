//! featprobe — C17: KAT digest of every enabled parameter set, printed one line per set.
//! The same digest is computed by the reference model (`vcheck featref`).
use rand_core::{CryptoRng, RngCore};
use sha2::{Digest, Sha256};

struct Replay([u8; 32], usize);
impl RngCore for Replay {
    fn next_u32(&mut self) -> u32 { unimplemented!() }
    fn next_u64(&mut self) -> u64 { unimplemented!() }
    fn fill_bytes(&mut self, _out: &mut [u8]) { unimplemented!() }
    fn try_fill_bytes(&mut self, out: &mut [u8]) -> Result<(), rand_core::Error> {
        for o in out.iter_mut() {
            *o = self.0[self.1 % 32];
            self.1 += 1;
        }
        Ok(())
    }
}
impl CryptoRng for Replay {}

fn h(tag: &str, seed: u64, set: u32, i: u32, j: u32) -> [u8; 32] {
    let mut s = Sha256::new();
    s.update(tag.as_bytes());
    s.update(seed.to_le_bytes());
    s.update(set.to_le_bytes());
    s.update(i.to_le_bytes());
    s.update(j.to_le_bytes());
    s.finalize().into()
}

#[allow(unused_macros)]
macro_rules! probe {
    ($m:ident, $set:expr, $seed:expr, $cases:expr) => {{
        use fips204::traits::{KeyGen, SerDes, Signer, Verifier};
        use fips204::Ph;
        let mut outer = Sha256::new();
        for i in 0..$cases {
            let mut d = Sha256::new();
            let xi = h("xi", $seed, $set, i, 0);
            let mfull = h("m", $seed, $set, i, 0);
            let m = &mfull[..(i as usize * 7) % 33];
            let cfull = h("c", $seed, $set, i, 0);
            let ctx = &cfull[..(i as usize) % 3];
            let (pk, sk) = fips204::$m::KG::keygen_from_seed(&xi);
            d.update(pk.clone().into_bytes());
            d.update(sk.clone().into_bytes());
            for j in 0..4u32 {
                let mut rng = Replay(h("rnd", $seed, $set, i, j), 0);
                let ph = match j {
                    1 => Some(Ph::SHA256),
                    2 => Some(Ph::SHA512),
                    3 => Some(Ph::SHAKE128),
                    _ => None,
                };
                let sig = match &ph {
                    None => sk.try_sign_with_rng(&mut rng, m, ctx).expect("sign"),
                    Some(p) => sk.try_hash_sign_with_rng(&mut rng, m, ctx, p).expect("hash sign"),
                };
                d.update(sig);
                let ver = |mm: &[u8], s: &[u8; fips204::$m::SIG_LEN]| -> bool {
                    match &ph {
                        None => pk.verify(mm, s, ctx),
                        Some(p) => pk.hash_verify(mm, s, ctx, p),
                    }
                };
                let v1 = ver(m, &sig);
                let mut bad = sig;
                bad[((i + j) as usize * 131) % bad.len()] ^= 1;
                let v2 = ver(m, &bad);
                let mut m2 = m.to_vec();
                m2.push(0);
                let v3 = ver(&m2, &sig);
                d.update([u8::from(v1), u8::from(v2), u8::from(v3)]);
            }
            let di: [u8; 32] = d.finalize().into();
            outer.update(di);
        }
        let out: [u8; 32] = outer.finalize().into();
        println!("set={} digest={}", $set, hex(&out));
        #[cfg(feature = "dudect")]
        {
            let mut rng = Replay(h("dudect", $seed, $set, 0, 0), 0);
            #[allow(deprecated)]
            let s = fips204::$m::dudect_keygen_sign_with_rng(&mut rng, b"dudect probe").expect("dudect");
            let dd: [u8; 32] = Sha256::digest(s).into();
            println!("set={} dudect={}", $set, hex(&dd));
        }
        #[cfg(feature = "default-rng")]
        {
            let (pk, sk) = fips204::$m::try_keygen().expect("try_keygen");
            let s = sk.try_sign(b"os rng", &[1]).expect("try_sign");
            println!("set={} osrng={}", $set, pk.verify(b"os rng", &s, &[1]));
        }
    }};
}

fn hex(b: &[u8]) -> String { b.iter().map(|x| format!("{x:02x}")).collect() }

fn main() {
    let args: Vec<String> = std::env::args().collect();
    let seed: u64 = args.get(1).and_then(|s| s.parse().ok()).unwrap_or(204);
    let cases: u32 = args.get(2).and_then(|s| s.parse().ok()).unwrap_or(8);
    let _ = (seed, cases);
    #[cfg(feature = "ml-dsa-44")]
    probe!(ml_dsa_44, 44u32, seed, cases);
    #[cfg(feature = "ml-dsa-65")]
    probe!(ml_dsa_65, 65u32, seed, cases);
    #[cfg(feature = "ml-dsa-87")]
    probe!(ml_dsa_87, 87u32, seed, cases);
}
