#![no_main]
//! C02 / C03 / C04 / C09 / C11: model-based API histories (props::history) with every call compared to the
//! reference model; the record names the property the mismatching call kind belongs to.
use fips204_verif::engine::{self, Stats};
use fips204_verif::fuzzglue;
use fips204_verif::props::history::{self, Focus};
use libfuzzer_sys::fuzz_target;
use std::sync::Once;
static INIT: Once = Once::new();
fuzz_target!(|data: &[u8]| {
    INIT.call_once(|| {
        engine::install_panic_hook();
        let _ = fips204_verif::props::history_prelude();
    });
    let Some(case) = fuzzglue::case_from_bytes::<history::Case>(data) else { return };
    if let Err(f) = history::check(Focus::All, &case, &mut Stats::default()) {
        let (prop, key) = f.key.split_once('|').map(|(a, b)| (a.to_string(), b.to_string())).unwrap_or(("C03".to_string(), f.key.clone()));
        let rec = serde_json::json!({"property": prop, "sub": history::SUB, "key": key, "what": f.what, "case": case});
        eprintln!("FUZZ-VIOLATION {rec}");
        std::process::abort();
    }
});
