#![no_main]
//! C13: no panic across an API-operation sequence (debug assertions and overflow checks are on in
//! cargo-fuzz builds).
use fips204_verif::{engine, fuzzglue, props::c13};
use libfuzzer_sys::fuzz_target;
use std::sync::Once;
static INIT: Once = Once::new();
fuzz_target!(|data: &[u8]| {
    INIT.call_once(engine::install_panic_hook);
    let root = std::env::var("VERIF_ROOT").unwrap_or_else(|_| "/verif".to_string());
    fuzzglue::run_one::<c13::Case, _>("C13", "sequences", data, |c, st| c13::check(&root, c, st));
});
