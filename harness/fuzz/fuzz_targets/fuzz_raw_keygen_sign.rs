#![no_main]
//! C04 / C03: the fuzzer's bytes ARE the 32 bytes the caller's RNG hands out (plus message, context,
//! mode): key generation and signing must equal the reference on them. Coverage feedback (incl.
//! compare tracing) can steer the draw toward "magic" values a random generator never produces.
use fips204_verif::{engine, fuzzglue};
use libfuzzer_sys::fuzz_target;
use std::sync::Once;
static INIT: Once = Once::new();
fuzz_target!(|data: &[u8]| {
    INIT.call_once(engine::install_panic_hook);
    if let Err((prop, f)) = fuzzglue::raw_keygen_sign(data) {
        let hexs: String = data.iter().map(|b| format!("{b:02x}")).collect();
        let rec = serde_json::json!({"property": prop, "sub": "raw_bytes", "key": f.key, "what": f.what, "case": {"raw_hex": hexs}});
        eprintln!("FUZZ-VIOLATION {rec}");
        std::process::abort();
    }
});
