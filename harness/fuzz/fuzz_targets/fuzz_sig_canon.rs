#![no_main]
//! C08: decode-accept <=> reference accept; re-encode = input.
use fips204_verif::{engine, fuzzglue, props::c08};
use libfuzzer_sys::fuzz_target;
use std::sync::Once;
static INIT: Once = Once::new();
fuzz_target!(|data: &[u8]| {
    INIT.call_once(engine::install_panic_hook);
    fuzzglue::run_one::<c08::SigCase, _>("C08", "sig_strings", data, c08::check_sig);
});
