#![no_main]
//! C02: library verdict = reference Verify verdict (all entry points), structure-aware.
use fips204_verif::{engine, fuzzglue, props::c02};
use libfuzzer_sys::fuzz_target;
use std::sync::Once;
static INIT: Once = Once::new();
fuzz_target!(|data: &[u8]| {
    INIT.call_once(engine::install_panic_hook);
    fuzzglue::run_one::<c02::Case, _>("C02", "generated", data, c02::check);
});
