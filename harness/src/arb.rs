//! Hand-written `arbitrary::Unstructured` decoders for the structured case types used by the
//! coverage-guided targets (no derive macro is available offline). libFuzzer mutates the bytes;
//! these decoders turn them into the same case types the property checks use, so coverage
//! feedback works on generator choices (set, base class, mutation list, planted values, API
//! operations) rather than on raw signature bytes.

use crate::gen::sigs::{ForgeSpec, HKind, HonestSpec, SigMut, ZKind, ZVal};
use crate::gen::{BytesSpec, Pattern, PkSpec, Seed32, SkSpec, CTX_LENS, MSG_LENS};
use crate::props::{c02, c08, c13};
use arbitrary::{Result, Unstructured};

pub trait Arb: Sized {
    fn arb(u: &mut Unstructured<'_>) -> Result<Self>;
}

fn vec_of<T: Arb>(u: &mut Unstructured<'_>, min: usize, max: usize) -> Result<Vec<T>> {
    let n = u.int_in_range(min..=max)?;
    (0..n).map(|_| T::arb(u)).collect()
}

impl Arb for Seed32 {
    fn arb(u: &mut Unstructured<'_>) -> Result<Self> {
        Ok(match u.int_in_range(0..=9u8)? {
            9 => Seed32::RareSampler(u.arbitrary()?),
            8 => Seed32::SourceConst(u.arbitrary()?),
            0 => Seed32::Zero,
            1 => Seed32::Ones,
            2 => Seed32::SingleBit(u.arbitrary()?),
            3 => Seed32::Repeated(u.arbitrary()?),
            _ => Seed32::Uniform(u64::from(u.arbitrary::<u16>()?)),
        })
    }
}

fn msg(u: &mut Unstructured<'_>, max: u32) -> Result<BytesSpec> {
    let len = if u.arbitrary::<bool>()? { *u.choose(&MSG_LENS)? } else { u32::from(u.arbitrary::<u8>()?) };
    Ok(BytesSpec { len: len.min(max), constant: if u.ratio(1, 4)? { Some(u.arbitrary()?) } else { None }, seed: u64::from(u.arbitrary::<u8>()?) })
}

fn ctx(u: &mut Unstructured<'_>, allow_long: bool) -> Result<BytesSpec> {
    let len = match u.int_in_range(0..=9u8)? {
        0..=5 => *u.choose(&CTX_LENS)?,
        6..=8 => u32::from(u.arbitrary::<u8>()?),
        _ => {
            if allow_long {
                256 + u32::from(u.arbitrary::<u16>()?) % 1024
            } else {
                255
            }
        }
    };
    Ok(BytesSpec { len, constant: if u.ratio(1, 4)? { Some(u.arbitrary()?) } else { None }, seed: u64::from(u.arbitrary::<u8>()?) })
}

impl Arb for Pattern {
    fn arb(u: &mut Unstructured<'_>) -> Result<Self> {
        Ok(match u.int_in_range(0..=10u8)? {
            10 => Pattern::NttZeroBlock { k: u.int_in_range(0..=7)?, point: u.arbitrary()? },
            9 => Pattern::RandomExtreme(u64::from(u.arbitrary::<u8>()?)),
            0 => Pattern::AllMin,
            1 => Pattern::AllMax,
            2 => Pattern::AllZero,
            3 => Pattern::Alternating(u.int_in_range(0..=7)?),
            4 => Pattern::SingleMax(u.arbitrary()?),
            5 => Pattern::SingleMin(u.arbitrary()?),
            _ => Pattern::Random(u64::from(u.arbitrary::<u8>()?)),
        })
    }
}

impl Arb for SkSpec {
    fn arb(u: &mut Unstructured<'_>) -> Result<Self> {
        let sel = u.int_in_range(0..=4u8)?;
        Ok(if sel == 4 {
            SkSpec::SingleT0 { seed: Seed32::arb(u)?, poly: u.arbitrary()?, t0: Pattern::arb(u)? }
        } else if sel < 2 {
            SkSpec::Generated(Seed32::arb(u)?)
        } else {
            SkSpec::Fields { rho: Seed32::arb(u)?, key: Seed32::arb(u)?, tr_seed: u64::from(u.arbitrary::<u8>()?), s1: Pattern::arb(u)?, s2: Pattern::arb(u)?, t0: Pattern::arb(u)?, consistent: u.arbitrary()? }
        })
    }
}

impl Arb for PkSpec {
    fn arb(u: &mut Unstructured<'_>) -> Result<Self> {
        Ok(match u.int_in_range(0..=7u8)? {
            7 => PkSpec::NttRoot { seed: u64::from(u.arbitrary::<u8>()?), poly: u.arbitrary()?, point: u.arbitrary()? },
            0 => PkSpec::AllZero,
            1 => PkSpec::AllOnes,
            2 | 3 => PkSpec::Generated(Seed32::arb(u)?),
            4 => PkSpec::Uniform(u64::from(u.arbitrary::<u8>()?)),
            _ => PkSpec::Fields { rho: Seed32::arb(u)?, t1: Pattern::arb(u)? },
        })
    }
}

impl Arb for ZVal {
    fn arb(u: &mut Unstructured<'_>) -> Result<Self> {
        Ok(*u.choose(&[ZVal::MaxOk, ZVal::MinOk, ZVal::Bound, ZVal::NegBound, ZVal::Top, ZVal::Bottom, ZVal::Zero])?)
    }
}

impl Arb for HonestSpec {
    fn arb(u: &mut Unstructured<'_>) -> Result<Self> {
        Ok(HonestSpec { key: Seed32::arb(u)?, msg: msg(u, 512)?, ctx: ctx(u, false)?, mode: u.int_in_range(0..=3)?, rnd: Seed32::arb(u)? })
    }
}

impl Arb for ForgeSpec {
    fn arb(u: &mut Unstructured<'_>) -> Result<Self> {
        let zkind = match u.int_in_range(0..=6u8)? {
            0 => ZKind::Small,
            1 => ZKind::Zero,
            2 => ZKind::AllExtreme,
            3 => ZKind::SolvedW { i: u.arbitrary()?, j: u.arbitrary()?, target: u.arbitrary()?, hinted: u.arbitrary()? },
            _ => ZKind::Uniform,
        };
        let hkind = match u.int_in_range(0..=7u8)? {
            0 => HKind::Empty,
            1 | 2 => HKind::Full,
            3 => HKind::AllInPoly(u.arbitrary()?),
            4 => HKind::Edges,
            _ => HKind::Weight(u.arbitrary()?),
        };
        let np = u.int_in_range(0..=2usize)?;
        let mut plants = Vec::new();
        for _ in 0..np {
            plants.push((u.arbitrary()?, u.arbitrary()?, ZVal::arb(u)?));
        }
        Ok(ForgeSpec { rho: Seed32::arb(u)?, seed: u64::from(u.arbitrary::<u8>()?), zkind, plants, hkind, msg: msg(u, 512)?, ctx: ctx(u, false)?, mode: u.int_in_range(0..=3)? })
    }
}

impl Arb for SigMut {
    fn arb(u: &mut Unstructured<'_>) -> Result<Self> {
        Ok(match u.int_in_range(0..=19u8)? {
            19 => SigMut::HintDuplicateInsert { nth: u.arbitrary()? },
            18 => SigMut::HintLeadingZeroTwice { poly: u.arbitrary()? },
            17 => SigMut::HintRunaway { bound: u.arbitrary()? },
            0 => SigMut::FlipBit(u.arbitrary()?),
            1 => SigMut::CtildeBit(u.arbitrary()?),
            2 => SigMut::SetZ { poly: u.arbitrary()?, idx: u.arbitrary()?, val: ZVal::arb(u)? },
            3 => SigMut::NudgeZ { poly: u.arbitrary()?, idx: u.arbitrary()?, up: u.arbitrary()? },
            4 => SigMut::HintAdd { poly: u.arbitrary()?, idx: u.arbitrary()? },
            5 => SigMut::HintRemove { nth: u.arbitrary()? },
            6 => SigMut::HintRepeat { nth: u.arbitrary()? },
            7 => SigMut::HintDescend { nth: u.arbitrary()? },
            8 => SigMut::CountDecrease { poly: u.arbitrary()? },
            9 => SigMut::CountAbove { poly: u.arbitrary()?, val: u.arbitrary()? },
            10 => SigMut::SlackNonzero { pos: u.arbitrary()?, val: u.int_in_range(1..=255)? },
            11 => SigMut::LastCountShort { by: u.int_in_range(1..=3)? },
            12 => SigMut::CountRaise { poly: u.arbitrary()?, by: u.int_in_range(1..=3)? },
            13 => SigMut::IndexEdge { nth: u.arbitrary()?, high: u.arbitrary()? },
            14 => SigMut::RandomZ(u64::from(u.arbitrary::<u8>()?)),
            15 => SigMut::RandomHint(u64::from(u.arbitrary::<u8>()?)),
            _ => SigMut::RandomAll(u64::from(u.arbitrary::<u8>()?)),
        })
    }
}

impl Arb for c02::Base {
    fn arb(u: &mut Unstructured<'_>) -> Result<Self> {
        Ok(match u.int_in_range(0..=9u8)? {
            0 | 1 => c02::Base::Honest(HonestSpec::arb(u)?),
            2 => c02::Base::Uniform { pk: PkSpec::arb(u)?, sig_seed: u64::from(u.arbitrary::<u8>()?), msg: msg(u, 512)?, ctx: ctx(u, false)?, mode: u.int_in_range(0..=3)? },
            _ => c02::Base::Forge(ForgeSpec::arb(u)?),
        })
    }
}

impl Arb for c02::Mutant {
    fn arb(u: &mut Unstructured<'_>) -> Result<Self> {
        let present = match u.int_in_range(0..=15u8)? {
            0 => c02::Present::OtherMode(u.int_in_range(0..=3)?),
            1 => c02::Present::LongCtx(ctx(u, true)?),
            2 => c02::Present::ExtendedCtx(u.arbitrary()?),
            3 => c02::Present::OtherPk(PkSpec::arb(u)?),
            4 => c02::Present::OtherMsg(msg(u, 300)?),
            5 => c02::Present::Internal,
            6 | 7 => c02::Present::AliasLongCtx(u.arbitrary()?),
            8 => c02::Present::InternalSigToExternal,
            9 => c02::Present::FormattedAsMessage,
            _ => c02::Present::Same,
        };
        Ok(c02::Mutant { muts: vec_of(u, 0, 2)?, rehash: u.arbitrary()?, present })
    }
}

impl Arb for c02::Case {
    fn arb(u: &mut Unstructured<'_>) -> Result<Self> {
        Ok(c02::Case { set: u.int_in_range(0..=2)?, base: c02::Base::arb(u)?, mutants: vec_of(u, 1, 8)? })
    }
}

impl Arb for c08::SigCase {
    fn arb(u: &mut Unstructured<'_>) -> Result<Self> {
        Ok(c08::SigCase { set: u.int_in_range(0..=2)?, base: c02::Base::arb(u)?, muts: vec_of(u, 0, 4)? })
    }
}

impl Arb for c13::SkBytes {
    fn arb(u: &mut Unstructured<'_>) -> Result<Self> {
        Ok(match u.int_in_range(0..=9u8)? {
            0 => c13::SkBytes::Uniform(u64::from(u.arbitrary::<u8>()?)),
            1 => c13::SkBytes::Zero,
            2 => c13::SkBytes::Ones,
            3 | 4 => c13::SkBytes::RandomRest(SkSpec::arb(u)?, u64::from(u.arbitrary::<u8>()?)),
            5 => {
                let n = u.int_in_range(1..=3usize)?;
                let mut f = Vec::new();
                for _ in 0..n {
                    f.push((u.arbitrary()?, u.arbitrary()?));
                }
                c13::SkBytes::Faulty(SkSpec::arb(u)?, f)
            }
            6 => c13::SkBytes::PoolBitFlip(u.arbitrary()?, u.arbitrary()?),
            _ => c13::SkBytes::Spec(SkSpec::arb(u)?),
        })
    }
}

impl Arb for c13::SigSrc {
    fn arb(u: &mut Unstructured<'_>) -> Result<Self> {
        Ok(match u.int_in_range(0..=9u8)? {
            0 | 1 | 2 => c13::SigSrc::Pool(u.arbitrary()?),
            3 => c13::SigSrc::Uniform(u64::from(u.arbitrary::<u8>()?)),
            4 | 5 => c13::SigSrc::Forge(ForgeSpec::arb(u)?),
            6 => c13::SigSrc::Aligned(u.arbitrary()?),
            _ => c13::SigSrc::Mutated(u.arbitrary()?, vec_of(u, 1, 2)?),
        })
    }
}

impl Arb for c13::Op {
    fn arb(u: &mut Unstructured<'_>) -> Result<Self> {
        Ok(match u.int_in_range(0..=19u8)? {
            0 => c13::Op::KeygenSeed(Seed32::arb(u)?),
            1 => c13::Op::KeygenRng(Seed32::arb(u)?),
            2 | 3 | 4 => c13::Op::SkFromBytes(c13::SkBytes::arb(u)?),
            5 | 6 => c13::Op::PkFromBytes(PkSpec::arb(u)?),
            7 | 8 | 9 => c13::Op::Sign { sk: u.arbitrary()?, msg: msg(u, 1024)?, ctx: ctx(u, true)?, mode: u.int_in_range(0..=3)?, rnd: Seed32::arb(u)? },
            10 => c13::Op::InternalSign { sk: u.arbitrary()?, msg: msg(u, 1024)?, ctx: ctx(u, true)?, rnd: Seed32::arb(u)? },
            11 | 12 | 13 => c13::Op::Verify { pk: u.arbitrary()?, sig: c13::SigSrc::arb(u)?, msg: msg(u, 1024)?, ctx: ctx(u, true)?, mode: u.int_in_range(0..=3)? },
            14 => c13::Op::InternalVerify { pk: u.arbitrary()?, sig: c13::SigSrc::arb(u)?, msg: msg(u, 1024)?, ctx: if u.ratio(2, 3)? { Some(ctx(u, true)?) } else { None } },
            15 => c13::Op::SkIntoBytes(u.arbitrary()?),
            16 => c13::Op::PkIntoBytes(u.arbitrary()?),
            17 => c13::Op::GetPublicKey(u.arbitrary()?),
            18 => c13::Op::CloneSk(u.arbitrary()?),
            _ => {
                if u.arbitrary::<bool>()? {
                    c13::Op::DropSk(u.arbitrary()?)
                } else {
                    c13::Op::DropPk(u.arbitrary()?)
                }
            }
        })
    }
}

impl Arb for c13::Case {
    fn arb(u: &mut Unstructured<'_>) -> Result<Self> {
        Ok(c13::Case { set: u.int_in_range(0..=2)?, ops: vec_of(u, 1, 12)? })
    }
}

// ---------------------------------------------------------------------------------------------
// Model-based API histories (props::history)

use crate::gen::twins::{CompOp, Twin, TWIN_LENS};
use crate::libapi::Fault;
use crate::props::history::{Case as HCase, HOp, KeySrc, SigSel};

impl Arb for Twin {
    fn arb(u: &mut Unstructured<'_>) -> Result<Self> {
        let n = *u.choose(&TWIN_LENS)?;
        Ok(match u.int_in_range(0..=5u8)? {
            0 | 1 => Twin::Tail { n, seed: u64::from(u.arbitrary::<u8>()?) },
            2 => Twin::Head { n, seed: u64::from(u.arbitrary::<u8>()?) },
            3 => Twin::Region { pos: u.arbitrary()?, n, seed: u64::from(u.arbitrary::<u8>()?) },
            4 => Twin::Byte { pos: u.arbitrary()?, mask: u.int_in_range(1..=255)? },
            _ => Twin::Compensated {
                width: *u.choose(&[1u8, 2, 4, 8])?,
                op: match u.int_in_range(0..=3u8)? {
                    0 => CompOp::Add,
                    1 => CompOp::Xor,
                    2 => CompOp::XorRot,
                    _ => CompOp::Poly(*u.choose(&[31u8, 33, 37, 131])?),
                },
                word: u.arbitrary()?,
                gap: u.int_in_range(1..=3)?,
                delta: u64::from(u.arbitrary::<u32>()?),
            },
        })
    }
}

fn fault(u: &mut Unstructured<'_>) -> Result<Option<Fault>> {
    Ok(match u.int_in_range(0..=7u8)? {
        0 => Some(Fault::ErrBefore),
        1 => Some(Fault::ErrAfter(*u.choose(&[1u8, 16, 31, 32])?)),
        _ => None,
    })
}

/// private keys whose signing loop stays short (as in `history::tame_sk`)
fn tame_sk(u: &mut Unstructured<'_>) -> Result<SkSpec> {
    Ok(if u.ratio(3, 5)? {
        SkSpec::Generated(Seed32::arb(u)?)
    } else {
        let t = u64::from(u.arbitrary::<u8>()?);
        SkSpec::Fields { rho: Seed32::arb(u)?, key: Seed32::arb(u)?, tr_seed: t, s1: Pattern::arb(u)?, s2: Pattern::arb(u)?, t0: Pattern::Random(t), consistent: u.arbitrary()? }
    })
}

impl Arb for HOp {
    fn arb(u: &mut Unstructured<'_>) -> Result<Self> {
        Ok(match u.int_in_range(0..=31u8)? {
            0..=2 => HOp::Keygen(Seed32::arb(u)?),
            3 | 4 => HOp::KeygenRng { seed: Seed32::arb(u)?, fault: fault(u)?, modfn: u.arbitrary()? },
            5..=7 => HOp::ImportPk(match u.int_in_range(0..=2u8)? {
                0 => KeySrc::Spec(PkSpec::arb(u)?),
                1 => KeySrc::Pool(u.arbitrary()?),
                _ => KeySrc::TwinOf(u.arbitrary()?, Twin::arb(u)?),
            }),
            8..=10 => HOp::ImportSk(match u.int_in_range(0..=2u8)? {
                0 => KeySrc::Spec(tame_sk(u)?),
                1 => KeySrc::Pool(u.arbitrary()?),
                _ => KeySrc::TwinOf(u.arbitrary()?, Twin::arb(u)?),
            }),
            11..=16 => HOp::Sign { sk: u.arbitrary()?, msg: msg(u, 300)?, ctx: ctx(u, true)?, mode: u.int_in_range(0..=3)?, rnd: Seed32::arb(u)?, fault: fault(u)? },
            17..=22 => HOp::Verify {
                pk: u.arbitrary()?,
                sig: match u.int_in_range(0..=6u8)? {
                    0..=3 => SigSel::Pool(u.arbitrary()?),
                    4 | 5 => SigSel::Mutated(u.arbitrary()?, SigMut::arb(u)?),
                    _ => SigSel::Uniform(u64::from(u.arbitrary::<u8>()?)),
                },
                other_msg: u.ratio(1, 7)?,
                other_ctx: if u.ratio(1, 7)? { Some(ctx(u, true)?) } else { None },
                other_mode: if u.ratio(1, 7)? { Some(u.int_in_range(0..=3)?) } else { None },
            },
            23..=25 => HOp::Derive(u.arbitrary()?),
            26 => HOp::SkBytes(u.arbitrary()?),
            27 => HOp::PkBytes(u.arbitrary()?),
            28 => if u.arbitrary()? { HOp::DropSk(u.arbitrary()?) } else { HOp::DropPk(u.arbitrary()?) },
            29 => if u.arbitrary()? { HOp::CloneSk(u.arbitrary()?) } else { HOp::ClonePk(u.arbitrary()?) },
            30 => HOp::AssignSk { dst: u.arbitrary()?, src: u.arbitrary()? },
            _ => HOp::AssignPk { dst: u.arbitrary()?, src: u.arbitrary()? },
        })
    }
}

impl Arb for HCase {
    fn arb(u: &mut Unstructured<'_>) -> Result<Self> {
        let mut ops = vec![HOp::Keygen(Seed32::arb(u)?)];
        ops.extend(vec_of::<HOp>(u, 2, 16)?);
        Ok(HCase { set: u.int_in_range(0..=2)?, ops })
    }
}
