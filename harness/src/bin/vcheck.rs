//! vcheck: runs one property in the profile this binary was built with and writes a JSON report.
//!
//!   vcheck selftest
//!   vcheck run <ID> --tier quick|thorough --seed N --report PATH
//!   vcheck replay <ID> --file REPLAY.json --report PATH
//!
//! exit 0: property held on everything explored; 1: violation(s) (listed in the report);
//! 2: the machinery could not decide (reference self-test failure, harness abort).

use fips204_verif::engine::{install_panic_hook, profile_name, Ctx, Report, Tier};
use fips204_verif::{props, refmodel};
use serde_json::Value;
use std::time::Instant;

fn arg(args: &[String], name: &str) -> Option<String> {
    args.iter().position(|a| a == name).and_then(|i| args.get(i + 1).cloned())
}

fn main() {
    let args: Vec<String> = std::env::args().collect();
    let root = std::env::var("VERIF_ROOT").unwrap_or_else(|_| "/verif".to_string());
    let cmd = args.get(1).map(String::as_str).unwrap_or("");
    if let Ok(t) = std::env::var("VERIF_THREADS") {
        if let Ok(n) = t.parse::<usize>() {
            rayon::ThreadPoolBuilder::new().num_threads(n).build_global().expect("thread pool");
        }
    }
    install_panic_hook();
    if cmd == "osrng-fork" {
        // before any thread is started: fork() in a multi-threaded process is not safe
        print!("{}", props::c12::os_rng_fork_probe(args.get(2).and_then(|s| s.parse().ok()).unwrap_or(3)));
        return;
    }
    fips204_verif::engine::start_watchdog();
    let t0 = Instant::now();
    if cmd == "featref" {
        // vcheck featref <seed> <cases>: the C17 KAT digests computed by the reference model
        use sha2::{Digest, Sha256};
        let seed: u64 = args[2].parse().expect("seed");
        let cases: u32 = args[3].parse().expect("cases");
        let h = |tag: &str, set: u32, i: u32, j: u32| -> [u8; 32] {
            let mut s = Sha256::new();
            s.update(tag.as_bytes());
            s.update(seed.to_le_bytes());
            s.update(set.to_le_bytes());
            s.update(i.to_le_bytes());
            s.update(j.to_le_bytes());
            s.finalize().into()
        };
        use rayon::prelude::*;
        for p in refmodel::ALL {
            let per_case: Vec<[u8; 32]> = (0..cases)
                .into_par_iter()
                .map(|i| {
                    let mut d = Sha256::new();
                    let xi = h("xi", p.id, i, 0);
                    let mfull = h("m", p.id, i, 0);
                    let m = &mfull[..(i as usize * 7) % 33];
                    let cfull = h("c", p.id, i, 0);
                    let ctx = &cfull[..(i as usize) % 3];
                    let (pk, sk) = refmodel::keygen_internal(&p, &xi);
                    d.update(&pk);
                    d.update(&sk);
                    for j in 0..4u32 {
                        let mode = refmodel::MODES[j as usize];
                        let rnd = h("rnd", p.id, i, j);
                        let (sig, _) = refmodel::sign(&p, &sk, m, ctx, mode, &rnd, 100_000).expect("reference sign");
                        d.update(&sig);
                        let v1 = refmodel::verify(&p, &pk, m, &sig, ctx, mode).accepted();
                        let mut bad = sig.clone();
                        let pos = ((i + j) as usize * 131) % bad.len();
                        bad[pos] ^= 1;
                        let v2 = refmodel::verify(&p, &pk, m, &bad, ctx, mode).accepted();
                        let mut m2 = m.to_vec();
                        m2.push(0);
                        let v3 = refmodel::verify(&p, &pk, &m2, &sig, ctx, mode).accepted();
                        d.update([u8::from(v1), u8::from(v2), u8::from(v3)]);
                        for k in 0..4u8 {
                            // same malformations of the hint section as featprobe's `hint_mutant`
                            let mut s = sig.clone();
                            let hoff = s.len() - (p.omega + p.k);
                            let total = s[hoff + p.omega + p.k - 1] as usize;
                            let (mut start, mut found) = (0usize, None);
                            for pi in 0..p.k {
                                let end = s[hoff + p.omega + pi] as usize;
                                if end >= start + 2 && found.is_none() {
                                    found = Some(start);
                                }
                                start = end;
                            }
                            match (k, found) {
                                (0, Some(a)) => s[hoff + a + 1] = s[hoff + a],
                                (1, Some(a)) => s.swap(hoff + a, hoff + a + 1),
                                (2, _) if total < p.omega => s[hoff + total] = 1,
                                (3, _) if total < p.omega => s[hoff + p.omega + p.k - 1] += 1,
                                _ => {}
                            }
                            d.update([u8::from(refmodel::verify(&p, &pk, m, &s, ctx, mode).accepted())]);
                        }
                    }
                    d.finalize().into()
                })
                .collect();
            let mut outer = Sha256::new();
            for di in &per_case {
                outer.update(di);
            }
            let out: [u8; 32] = outer.finalize().into();
            println!("set={} digest={}", p.id, hex::encode(out));
            // ---- behaviour digest (same byte stream as featprobe, expected values from FIPS 204 / the crate's docs) ----
            let mut b = Sha256::new();
            let bits = p.eta_bits();
            let nfields = (p.k + p.l) * 256;
            for i in 0..cases.min(32) {
                let xi = h("xi", p.id, i, 0);
                let mfull = h("m", p.id, i, 0);
                let m = &mfull[..(i as usize * 7) % 33];
                let (pk, sk) = refmodel::keygen_internal(&p, &xi);
                b.update(&pk); // derived public key
                b.update(&sk); // private key round trip
                b.update(&pk); // public key round trip
                for _v in (2 * p.eta as u32 + 1)..(1u32 << bits) {
                    let _ = nfields;
                    b.update([1u8]); // malformed private key rejected
                }
                b.update([1u8, 1, 0, 0]); // 256-byte context: both signers fail, both verifiers false
                b.update([1u8, 1, 1]); // RNG fails on its first request: keygen, sign, hash-sign fail
                let (si, _) = refmodel::sign_internal(&p, &sk, m, &h("rnd", p.id, i, 0), 100_000).expect("reference sign_internal");
                b.update(&si);
                b.update([1u8]);
                b.update([1u8, 1]); // both key objects wiped on drop
            }
            let outb: [u8; 32] = b.finalize().into();
            println!("set={} behave={}", p.id, hex::encode(outb));
            // ---- rare-event digest (same stream as featprobe) ----
            let mut r = Sha256::new();
            let mut crafted_sk: Option<Vec<u8>> = None;
            let lines: Vec<String> = args.get(4).map(|f| std::fs::read_to_string(f).expect("rare-event file").lines().map(str::to_string).collect()).unwrap_or_default();
            for line in &lines {
                let f: Vec<&str> = line.split(' ').collect();
                if f.len() < 3 || f[1].parse::<u32>().ok() != Some(p.id) {
                    continue;
                }
                if f[0] == "XK" {
                    crafted_sk = Some(hex::decode(f[2]).expect("sk"));
                    continue;
                }
                if f[0] == "X" {
                    // the library's loop runs floor(65535 / L) iterations at most, then reports an error
                    let cap = (65_535 / p.l) as u32;
                    match refmodel::sign(&p, crafted_sk.as_ref().expect("XK line first"), &hex::decode(f[2]).expect("msg"), &[], refmodel::Mode::Pure, &hex::decode(f[3]).expect("rnd"), cap) {
                        Ok((sig, _)) => r.update(&sig),
                        Err(_) => r.update([0xEEu8]),
                    }
                    continue;
                }
                if f[0] == "V" {
                    let mode = refmodel::MODES[f[2].parse::<usize>().expect("mode") % 4];
                    let (vpk, vm, vctx, vsig) = (hex::decode(f[3]).expect("pk"), hex::decode(f[4]).expect("msg"), hex::decode(f[5]).expect("ctx"), hex::decode(f[6]).expect("sig"));
                    r.update([u8::from(refmodel::verify(&p, &vpk, &vm, &vsig, &vctx, mode).accepted())]);
                    continue;
                }
                let xi = hex::decode(f[2]).expect("xi");
                let (pk, sk) = refmodel::keygen_internal(&p, &xi);
                let (m, rnd): (Vec<u8>, Vec<u8>) = if f[0] == "S" { (hex::decode(f[3]).expect("msg"), hex::decode(f[4]).expect("rnd")) } else { (b"rare".to_vec(), h("rare-rnd", p.id, 0, 0).to_vec()) };
                if f[0] == "K" {
                    r.update(&pk);
                    r.update(&sk);
                    r.update(&pk);
                }
                let (sig, _) = refmodel::sign(&p, &sk, &m, &[], refmodel::Mode::Pure, &rnd, 100_000).expect("reference sign");
                r.update(&sig);
                r.update([u8::from(refmodel::verify(&p, &pk, &m, &sig, &[], refmodel::Mode::Pure).accepted())]);
            }
            let outr: [u8; 32] = r.finalize().into();
            println!("set={} rare={}", p.id, hex::encode(outr));
        }
        return;
    }
    if cmd == "sibsearch" {
        // vcheck sibsearch <set> <millions>: search c~ values whose SampleInBall run is extreme (longest run of
        // consecutive rejections; most rejections in total). Depends only on SHAKE256 and tau.
        use rayon::prelude::*;
        use sha3::digest::{ExtendableOutput, Update, XofReader};
        let p = refmodel::params(args[2].parse().expect("set"));
        let millions: u64 = args[3].parse().expect("millions");
        let cl = p.ctilde_len();
        let eval = |i: u64| -> (u32, u32, Vec<u8>) {
            let mut c = vec![0u8; cl];
            for (k, b) in c.iter_mut().enumerate() {
                *b = (i.wrapping_mul(0x9E37_79B9_7F4A_7C15).rotate_left((k as u32 * 7) % 64) >> ((k % 8) * 8)) as u8 ^ (k as u8).wrapping_mul(31);
            }
            c[..8].copy_from_slice(&i.to_le_bytes());
            let mut sh = sha3::Shake256::default();
            sh.update(&c);
            let mut rd = sh.finalize_xof();
            let mut buf = [0u8; 8 + 1024];
            rd.read(&mut buf);
            let (mut pos, mut maxrun, mut total) = (8usize, 0u32, 0u32);
            for idx in (256 - p.tau)..=255 {
                let mut run = 0u32;
                loop {
                    if pos >= buf.len() {
                        return (0, 0, c); // practically unreachable; ignore
                    }
                    let j = buf[pos] as usize;
                    pos += 1;
                    if j > idx {
                        run += 1;
                        total += 1;
                    } else {
                        break;
                    }
                }
                maxrun = maxrun.max(run);
            }
            (maxrun, total, c)
        };
        let n = millions * 1_000_000;
        let chunks = 4096u64;
        let per = n / chunks;
        let mut best: Vec<(u32, u32, Vec<u8>)> = (0..chunks)
            .into_par_iter()
            .flat_map_iter(|ch| {
                let mut top_run: Vec<(u32, u32, Vec<u8>)> = Vec::new();
                let mut top_tot: Vec<(u32, u32, Vec<u8>)> = Vec::new();
                for i in ch * per..(ch + 1) * per {
                    let e = eval(i);
                    if top_run.len() < 2 || e.0 > top_run.last().unwrap().0 {
                        top_run.push(e.clone());
                        top_run.sort_by(|a, b| b.0.cmp(&a.0));
                        top_run.truncate(2);
                    }
                    if top_tot.len() < 2 || e.1 > top_tot.last().unwrap().1 {
                        top_tot.push(e);
                        top_tot.sort_by(|a, b| b.1.cmp(&a.1));
                        top_tot.truncate(2);
                    }
                }
                top_run.into_iter().chain(top_tot)
            })
            .collect();
        best.sort_by(|a, b| b.0.cmp(&a.0));
        let mut out: Vec<serde_json::Value> = best.iter().take(6).map(|e| serde_json::json!({"set": p.id, "max_consecutive_rejections": e.0, "total_rejections": e.1, "c_tilde": hex::encode(&e.2)})).collect();
        best.sort_by(|a, b| b.1.cmp(&a.1));
        out.extend(best.iter().take(6).map(|e| serde_json::json!({"set": p.id, "max_consecutive_rejections": e.0, "total_rejections": e.1, "c_tilde": hex::encode(&e.2)})));
        println!("{}", serde_json::to_string_pretty(&out).expect("json"));
        eprintln!("searched {n} candidates in {:.0}s", t0.elapsed().as_secs_f64());
        return;
    }
    if cmd == "xofsearch" {
        // vcheck xofsearch <set> <millions>: key-generation seeds with rare sampler events (JSON on stdout)
        let p = refmodel::params(args[2].parse().expect("set"));
        let n: u64 = (args[3].parse::<f64>().expect("millions") * 1e6) as u64;
        let found = fips204_verif::gen::xofsearch::search(&p, n);
        for e in &found {
            // cross-check the event counters against the reference model's own sampler statistics
            let xi = hex::decode(&e.xi).expect("hex");
            let mut st = refmodel::KeygenStats::default();
            let _ = refmodel::keygen_internal_stats(&p, &xi, &mut st);
            assert_eq!(st.sample.rej3, u64::from(e.total_rej), "xofsearch disagrees with the reference model on {}", e.xi);
        }
        println!("{}", serde_json::to_string_pretty(&found).expect("json"));
        eprintln!("searched {n} seeds for set {} in {:.0}s", p.id, t0.elapsed().as_secs_f64());
        return;
    }
    if cmd == "sigsearch" {
        // vcheck sigsearch <set> <millions>: genuine signatures with extreme SampleInBall runs (JSON on stdout).
        // The library signs (speed); every kept tuple is re-signed by the reference model, which must agree.
        let p = refmodel::params(args[2].parse().expect("set"));
        let n: u64 = (args[3].parse::<f64>().expect("millions") * 1e6) as u64;
        let libr = fips204_verif::libapi::lib(p.id);
        let xis: Vec<[u8; 32]> = (0..4u64).map(|k| fips204_verif::gen::Seed32::Uniform(k).bytes()).collect();
        // (key bytes, re-imported per call: key objects are not assumed to be shareable between threads)
        let keys: Vec<Vec<u8>> = xis.iter().map(|xi| libr.keygen_from_seed(xi).1.to_bytes()).collect();
        let sign = |xi: &[u8; 32], m: &[u8], rnd: &[u8; 32]| -> Option<Vec<u8>> {
            let k = libr.sk_from_bytes(&keys[xis.iter().position(|x| x == xi).expect("key index")]).ok()?;
            let mut rng = fips204_verif::libapi::TestRng::replay(rnd);
            k.sign(&mut rng, m, &[], refmodel::Mode::Pure).ok()
        };
        let mut found = fips204_verif::gen::xofsearch::sig_search(&p, n, &sign);
        for e in found.iter_mut() {
            let (xi, m, rnd) = (hex::decode(&e.xi).expect("hex"), hex::decode(&e.msg).expect("hex"), hex::decode(&e.rnd).expect("hex"));
            let (_, sk) = refmodel::keygen_internal(&p, &xi);
            let (rsig, d) = refmodel::sign(&p, &sk, &m, &[], refmodel::Mode::Pure, &rnd, 100_000).expect("reference sign");
            let (run, tot) = fips204_verif::gen::xofsearch::sib_stats(&p, &rsig[..p.ctilde_len()]);
            assert_eq!((run, tot), (e.sib_max_run, e.sib_total_rej), "sigsearch: the reference model signs this tuple differently");
            e.iterations = d.iterations;
        }
        println!("{}", serde_json::to_string_pretty(&found).expect("json"));
        eprintln!("searched {n} signatures for set {} in {:.0}s", p.id, t0.elapsed().as_secs_f64());
        return;
    }
    if cmd == "itersearch" {
        // vcheck itersearch <set> <millions>: genuine signatures accepted in a LATE rejection-loop iteration
        // (reference signer only; the tuples extend corpus/sig_extremes)
        use rayon::prelude::*;
        let p = refmodel::params(args[2].parse().expect("set"));
        let n: u64 = (args[3].parse::<f64>().expect("millions") * 1e6) as u64;
        let sks: Vec<Vec<u8>> = (0..4u64).map(|k| refmodel::keygen_internal(&p, &fips204_verif::gen::Seed32::Uniform(k).bytes()).1).collect();
        let base: u64 = 1 << 40; // index space disjoint from sigsearch
        let mut best: Vec<(u32, u64)> = (0..n)
            .into_par_iter()
            .filter_map(|j| {
                let i = base + j;
                let (_, m, rnd) = fips204_verif::gen::xofsearch::sig_tuple(i);
                let (_, d) = refmodel::sign(&p, &sks[(i % 4) as usize], &m, &[], refmodel::Mode::Pure, &rnd, 100_000).ok()?;
                (d.iterations >= 30).then_some((d.iterations, i))
            })
            .collect();
        best.sort_by_key(|e| (std::cmp::Reverse(e.0), e.1));
        best.truncate(6);
        let out: Vec<fips204_verif::gen::xofsearch::SigEvents> = best
            .iter()
            .map(|(it, i)| {
                let (xi, m, rnd) = fips204_verif::gen::xofsearch::sig_tuple(*i);
                let (sig, _) = refmodel::sign(&p, &sks[(*i % 4) as usize], &m, &[], refmodel::Mode::Pure, &rnd, 100_000).expect("reference sign");
                let (run, tot) = fips204_verif::gen::xofsearch::sib_stats(&p, &sig[..p.ctilde_len()]);
                fips204_verif::gen::xofsearch::SigEvents { set: p.id, index: *i, xi: hex::encode(xi), msg: hex::encode(&m), rnd: hex::encode(rnd), sib_max_run: run, sib_total_rej: tot, hint_weight: u32::from(sig[p.sig_len - 1]), iterations: *it }
            })
            .collect();
        println!("{}", serde_json::to_string_pretty(&out).expect("json"));
        eprintln!("searched {n} reference signatures for set {} in {:.0}s", p.id, t0.elapsed().as_secs_f64());
        return;
    }
    if cmd == "featvectors" {
        // vcheck featvectors <seed>: crafted verification vectors for the feature-matrix probe, one line each:
        //   V <set> <mode 0..3> <pk> <msg> <ctx> <sig>
        // forged signatures under a t1 = 0 key (valid), and malformed hint encodings of them that leave the SET of
        // hinted positions unchanged (so a decoder that tolerates the malformation makes them verify)
        use fips204_verif::gen::sigs::{self, ForgeSpec, HKind, SigMut, ZKind};
        use fips204_verif::gen::{BytesSpec, Seed32};
        let seed: u64 = args[2].parse().expect("seed");
        for p in refmodel::ALL {
            for b in 0..4u64 {
                let spec = ForgeSpec { rho: Seed32::Uniform(seed ^ b), seed: seed.wrapping_add(b), zkind: ZKind::Uniform, plants: vec![], hkind: HKind::Weight(40 + 40 * b as u8), msg: BytesSpec { len: 5 + b as u32, constant: None, seed: b }, ctx: BytesSpec { len: b as u32 % 3, constant: None, seed: b }, mode: (b % 4) as u8 };
                let fb = sigs::build_forge(&p, &spec);
                let t = &fb.tuple;
                let mut sigs_out = vec![t.sig.clone()];
                for mu in [SigMut::HintDescend { nth: 0 }, SigMut::HintDescend { nth: 7 }, SigMut::HintDuplicateInsert { nth: 0 }, SigMut::HintDuplicateInsert { nth: 5 }, SigMut::HintDuplicateInsert { nth: 200 }, SigMut::HintLeadingZeroTwice { poly: b as u8 }, SigMut::SlackNonzero { pos: 0, val: 1 }, SigMut::SlackNonzero { pos: 9, val: 255 }] {
                    sigs_out.push(sigs::apply_mut(&p, &t.sig, &mu));
                }
                for s in sigs_out {
                    println!("V {} {} {} {} {} {}", p.id, spec.mode % 4, hex::encode(&t.pk), hex::encode(&t.m), hex::encode(&t.ctx), hex::encode(&s));
                }
            }
            // a crafted private key (honest s1 / s2, every t0 coefficient at one of the two range ends) and messages on
            // which the reference signer needs at most 300 iterations with it (so that nobody waits for an exhausted loop)
            let skc = fips204_verif::gen::build_sk(&p, &fips204_verif::gen::SkSpec::Fields { rho: Seed32::Uniform(seed), key: Seed32::Zero, tr_seed: seed, s1: fips204_verif::gen::Pattern::Random(seed), s2: fips204_verif::gen::Pattern::Random(seed ^ 1), t0: fips204_verif::gen::Pattern::RandomExtreme(seed), consistent: false }).sk;
            println!("XK {} {}", p.id, hex::encode(&skc));
            let mut found = 0;
            for j in 0..4000u64 {
                let m = fips204_verif::gen::prg_bytes(seed ^ j, "featvec-msg", 8);
                let rnd = fips204_verif::gen::prg_bytes(seed ^ j, "featvec-rnd", 32);
                if let Ok((_, d)) = refmodel::sign(&p, &skc, &m, &[], refmodel::Mode::Pure, &rnd, 300) {
                    println!("X {} {} {}", p.id, hex::encode(&m), hex::encode(&rnd));
                    found += 1;
                    let _ = d;
                    if found == 24 {
                        break;
                    }
                }
            }
        }
        return;
    }
    if cmd == "coldstart" {
        // vcheck coldstart <seed>: the first library calls of this process are made by 16 threads at once
        for l in props::c03::cold_start_lines(args[2].parse().expect("seed")) {
            println!("{l}");
        }
        return;
    }
    if cmd == "osrng-probe" {
        for l in props::c12::os_rng_probe_lines() {
            println!("{l}");
        }
        return;
    }
    if cmd == "constants" {
        for c in fips204_verif::gen::source_constants() {
            println!("{}", hex::encode(c));
        }
        return;
    }
    if cmd == "aligned" {
        // vcheck aligned <set> <rho-hex> <row> <k>: run the aligned-residue construction, print JSON
        let p = refmodel::params(args[2].parse().expect("set"));
        let rho = hex::decode(&args[3]).expect("rho hex");
        let row: usize = args[4].parse().expect("row");
        let k: usize = args[5].parse().expect("k");
        match fips204_verif::gen::aligned::construct(&p, &rho, row, k) {
            Some(a) => {
                println!("{}", serde_json::to_string(&a).expect("json"));
                eprintln!("estimate {} = {:.2} x 2^31 in {:.1}s", a.estimate, a.estimate as f64 / 2f64.powi(31), t0.elapsed().as_secs_f64());
            }
            None => {
                eprintln!("no small-preimage combination found");
                std::process::exit(3);
            }
        }
        return;
    }
    let full_selftest = cmd == "selftest";
    match refmodel::selftest::run(&root, full_selftest) {
        Ok(r) => {
            if full_selftest {
                println!("reference self-test ok: {r:?} ({:.2}s, profile {})", t0.elapsed().as_secs_f64(), profile_name());
                return;
            }
        }
        Err(e) => {
            eprintln!("INCONCLUSIVE: reference self-test failed: {e}");
            std::process::exit(2);
        }
    }
    let id = args.get(2).cloned().unwrap_or_default();
    let tier = match arg(&args, "--tier").as_deref() {
        Some("thorough") => Tier::Thorough,
        _ => Tier::Quick,
    };
    let seed: u64 = arg(&args, "--seed").and_then(|s| s.parse().ok()).unwrap_or(204);
    let report_path = arg(&args, "--report");
    let ctx = Ctx { tier, seed, root };
    let prelude_calls = if matches!(cmd, "run" | "replay") && std::env::var("VERIF_NO_PRELUDE").is_err() { props::history_prelude() } else { 0 };
    let rep: Report = match cmd {
        "run" => match props::run(&id, &ctx) {
            Some(r) => r,
            None => {
                eprintln!("unknown property {id}");
                std::process::exit(2);
            }
        },
        "replay" => {
            let file = arg(&args, "--file").expect("--file");
            let v: Value = serde_json::from_str(&std::fs::read_to_string(&file).expect("replay file")).expect("replay json");
            let sub = v["sub"].as_str().unwrap_or("").to_string();
            let key = v["key"].as_str().unwrap_or("").to_string();
            let mut ctx = ctx.clone();
            if let Some(s) = v["seed"].as_u64() {
                ctx.seed = s;
            }
            if v["tier"].as_str() == Some("thorough") {
                ctx.tier = Tier::Thorough;
            }
            match props::replay(&id, &ctx, &sub, &v["case"]) {
                Some(Ok(())) => Report::new(&id),
                Some(Err(f)) => {
                    let mut r = Report::new(&id);
                    r.violation(&sub, f, v["case"].clone());
                    r
                }
                None => {
                    // enumerated sub-check: re-run the property deterministically and keep this finding only
                    let mut r = props::run(&id, &ctx).unwrap_or_else(|| {
                        eprintln!("unknown property {id}");
                        std::process::exit(2)
                    });
                    r.violations.retain(|x| x.sub == sub && x.key == key);
                    r
                }
            }
        }
        _ => {
            eprintln!("usage: vcheck selftest | run <ID> --tier T --seed N --report P | replay <ID> --file F --report P");
            std::process::exit(2);
        }
    };
    let mut rep = rep;
    if prelude_calls > 0 {
        rep.note(format!("process history: {prelude_calls} ordinary API calls (failing generators with every error code, over-long contexts, malformed keys, junk signatures, repeated rnd, OS-RNG calls) were made before the first case; the properties must hold whatever the process did before"));
    }
    let abandoned = fips204_verif::engine::ABANDONED.load(std::sync::atomic::Ordering::Relaxed);
    if abandoned > 0 {
        rep.note(format!("{abandoned} call(s) of the code under test did not return within their time limit and were abandoned"));
        if rep.violations.is_empty() {
            rep.inconclusive = Some(format!("{abandoned} call(s) of the code under test did not return within the time limit (hang); no violation found elsewhere"));
        }
    }
    let wall = t0.elapsed().as_secs_f64();
    let json = rep.to_json(&ctx, wall);
    if let Some(p) = report_path {
        std::fs::write(&p, serde_json::to_string_pretty(&json).expect("json")).expect("write report");
    }
    eprintln!(
        "[{} {} {}] evaluations={} distinct_nontrivial={} violations={} wall={:.1}s",
        id,
        profile_name(),
        if ctx.quick() { "quick" } else { "thorough" },
        json["evaluations"],
        json["distinct_nontrivial"],
        rep.violations.len(),
        wall
    );
    for v in &rep.violations {
        eprintln!("  violation sub={} key={} :: {}", v.sub, v.key, v.what);
    }
    if let Some(why) = &rep.inconclusive {
        eprintln!("INCONCLUSIVE: {why}");
        std::process::exit(2);
    }
    // (abandoned threads may still be spinning: leave through exit, not through the end of main)
    std::process::exit(if rep.violations.is_empty() { 0 } else { 1 });
}
