use fips204_verif::refmodel;
fn main() {
    let root = std::env::var("VERIF_ROOT").unwrap_or_else(|_| "/verif".to_string());
    let t = std::time::Instant::now();
    match refmodel::selftest::run(&root, true) {
        Ok(r) => println!("selftest ok {r:?} in {:?}", t.elapsed()),
        Err(e) => { eprintln!("selftest FAILED: {e}"); std::process::exit(2); }
    }
}
