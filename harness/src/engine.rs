//! Runner core: deterministic sharded execution of generated cases (proptest `TestRunner` per
//! shard with a fixed seed, no persistence), exhaustive sweeps, statistics, violation records.

use proptest::strategy::Strategy;
use proptest::test_runner::{Config, RngSeed, TestCaseError, TestError, TestRunner};
use rayon::prelude::*;
use serde::Serialize;
use serde_json::{json, Value};
use std::cell::RefCell;
use std::collections::{BTreeMap, HashSet};
use std::hash::{Hash, Hasher};
use std::panic::{catch_unwind, AssertUnwindSafe};

pub const SHARDS: u32 = 16;

#[derive(Clone, Copy, Debug, PartialEq, Eq)]
pub enum Tier {
    Quick,
    Thorough,
}

#[derive(Clone, Debug)]
pub struct Ctx {
    pub tier: Tier,
    pub seed: u64,
    pub root: String,
}

impl Ctx {
    pub fn quick(&self) -> bool { self.tier == Tier::Quick }
    /// pick by tier
    pub fn n(&self, quick: u32, thorough: u32) -> u32 {
        let scale: f64 = std::env::var("VERIF_SCALE").ok().and_then(|s| s.parse().ok()).unwrap_or(1.0);
        let base = if self.quick() { quick } else { thorough };
        ((f64::from(base) * scale).ceil() as u32).max(1)
    }
}

pub fn profile_name() -> &'static str {
    if !cfg!(feature = "allochook") {
        // whole-program-optimised probe build (fat LTO, no allocator hook)
        "lto"
    } else if cfg!(debug_assertions) {
        "checked"
    } else {
        "plain"
    }
}

// ---------------------------------------------------------------------------------------------
// Panic capture

#[derive(Clone, Debug, Default)]
pub struct PanicInfo {
    pub loc: String,
    pub msg: String,
}

thread_local! {
    static LAST_PANIC: RefCell<Option<PanicInfo>> = const { RefCell::new(None) };
    static GUARD_DEPTH: RefCell<u32> = const { RefCell::new(0) };
}

pub fn install_panic_hook() {
    let default = std::panic::take_hook();
    std::panic::set_hook(Box::new(move |info| {
        let guarded = GUARD_DEPTH.with(|d| *d.borrow() > 0);
        if guarded {
            let loc = info.location().map(|l| format!("{}:{}", l.file(), l.line())).unwrap_or_default();
            let msg = if let Some(s) = info.payload().downcast_ref::<&str>() {
                (*s).to_string()
            } else if let Some(s) = info.payload().downcast_ref::<String>() {
                s.clone()
            } else {
                "<non-string panic payload>".to_string()
            };
            let msg: String = msg.chars().take(160).collect();
            LAST_PANIC.with(|p| *p.borrow_mut() = Some(PanicInfo { loc, msg }));
        } else {
            default(info);
        }
    }));
}

/// Run library code; a panic becomes `Err(PanicInfo)`. Harness code outside `guarded` panics normally.
pub fn guarded<T>(f: impl FnOnce() -> T) -> Result<T, PanicInfo> {
    GUARD_DEPTH.with(|d| *d.borrow_mut() += 1);
    let r = catch_unwind(AssertUnwindSafe(f));
    GUARD_DEPTH.with(|d| *d.borrow_mut() -= 1);
    r.map_err(|_| LAST_PANIC.with(|p| p.borrow_mut().take()).unwrap_or_default())
}

impl PanicInfo {
    /// stable identity of a panic: location with the repository prefix stripped + message head
    pub fn key(&self) -> String {
        let loc = self.loc.rsplit_once("/src/").map(|(_, b)| format!("src/{b}")).unwrap_or(self.loc.clone());
        let head: String = self.msg.lines().next().unwrap_or("").chars().take(48).collect();
        format!("panic@{loc}:{head}")
    }
}

// ---------------------------------------------------------------------------------------------
// Per-case watchdog: a case that does not return (e.g. a signing loop that cycles) is reported as
// INCONCLUSIVE (exit 2) together with the case, never as a violation.

use std::sync::Mutex;
use std::time::Instant;

static WATCH: Mutex<Vec<(u64, Instant, String)>> = Mutex::new(Vec::new());
static WATCH_ID: std::sync::atomic::AtomicU64 = std::sync::atomic::AtomicU64::new(1);

/// calls of the code under test that were abandoned after a time limit (run in a sacrificial thread)
pub static ABANDONED: std::sync::atomic::AtomicU64 = std::sync::atomic::AtomicU64::new(0);

/// Run `f` in a sacrificial thread; `None` if it does not return within `secs` (the thread is left
/// behind; the run ends as INCONCLUSIVE unless a real violation is found elsewhere).
pub fn with_time_limit<T: Send + 'static>(secs: u64, f: impl FnOnce() -> T + Send + 'static) -> Option<T> {
    let (tx, rx) = std::sync::mpsc::channel();
    let _ = std::thread::spawn(move || {
        let _ = tx.send(f());
    });
    match rx.recv_timeout(std::time::Duration::from_secs(secs)) {
        Ok(v) => Some(v),
        Err(_) => {
            let _ = ABANDONED.fetch_add(1, std::sync::atomic::Ordering::Relaxed);
            None
        }
    }
}

pub struct WatchGuard(u64);

pub fn watch(describe: impl FnOnce() -> String) -> WatchGuard {
    let id = WATCH_ID.fetch_add(1, std::sync::atomic::Ordering::Relaxed);
    if let Ok(mut w) = WATCH.lock() {
        w.push((id, Instant::now(), describe()));
    }
    WatchGuard(id)
}

impl Drop for WatchGuard {
    fn drop(&mut self) {
        if let Ok(mut w) = WATCH.lock() {
            w.retain(|e| e.0 != self.0);
        }
    }
}

pub fn start_watchdog() {
    let limit: u64 = std::env::var("VERIF_CASE_TIMEOUT").ok().and_then(|s| s.parse().ok()).unwrap_or(240);
    let _ = std::thread::spawn(move || loop {
        std::thread::sleep(std::time::Duration::from_secs(2));
        if let Ok(w) = WATCH.lock() {
            if let Some(e) = w.iter().find(|e| e.1.elapsed().as_secs() > limit) {
                eprintln!("INCONCLUSIVE: a single case did not return within {limit}s (hang or non-terminating loop in the code under test?): {}", e.2.chars().take(1500).collect::<String>());
                std::process::exit(2);
            }
        }
    });
}

// ---------------------------------------------------------------------------------------------
// Statistics

pub const SAMPLES_PER_CLASS: usize = 2;

#[derive(Default, Debug)]
pub struct Stats {
    pub evaluations: u64,
    nontrivial: HashSet<u64>,
    /// non-trivial cases counted arithmetically (exhaustive sweeps: every element is distinct by construction)
    pub nontrivial_enumerated: u64,
    pub classes: BTreeMap<String, u64>,
    pub samples: BTreeMap<String, Vec<Value>>,
    pub maxima: BTreeMap<String, i64>,
}

pub fn hash_of<T: Hash + ?Sized>(t: &T) -> u64 {
    let mut h = std::collections::hash_map::DefaultHasher::new();
    t.hash(&mut h);
    h.finish()
}

impl Stats {
    pub fn eval(&mut self) { self.evaluations += 1; }
    pub fn evals(&mut self, n: u64) { self.evaluations += n; }
    pub fn class(&mut self, name: &str) { *self.classes.entry(name.to_string()).or_insert(0) += 1; }
    pub fn class_n(&mut self, name: &str, n: u64) {
        *self.classes.entry(name.to_string()).or_insert(0) += n;
    }
    pub fn nontrivial<T: Hash + ?Sized>(&mut self, key: &T) { let _ = self.nontrivial.insert(hash_of(key)); }
    pub fn maximum(&mut self, name: &str, v: i64) {
        let e = self.maxima.entry(name.to_string()).or_insert(i64::MIN);
        if v > *e {
            *e = v;
        }
    }
    pub fn sample(&mut self, class: &str, v: impl FnOnce() -> Value) {
        let e = self.samples.entry(class.to_string()).or_default();
        if e.len() < SAMPLES_PER_CLASS {
            e.push(v());
        }
    }
    pub fn distinct_nontrivial(&self) -> u64 { self.nontrivial.len() as u64 + self.nontrivial_enumerated }
    pub fn merge(&mut self, o: Stats) {
        self.evaluations += o.evaluations;
        self.nontrivial.extend(o.nontrivial);
        self.nontrivial_enumerated += o.nontrivial_enumerated;
        for (k, v) in o.classes {
            *self.classes.entry(k).or_insert(0) += v;
        }
        for (k, v) in o.samples {
            let e = self.samples.entry(k).or_default();
            for s in v {
                if e.len() < SAMPLES_PER_CLASS {
                    e.push(s);
                }
            }
        }
        for (k, v) in o.maxima {
            self.maximum(&k, v);
        }
    }
}

// ---------------------------------------------------------------------------------------------
// Violations and reports

#[derive(Clone, Debug, Serialize)]
pub struct Violation {
    pub sub: String,
    /// stable identity used for known-finding matching
    pub key: String,
    pub what: String,
    pub case: Value,
}

/// A failed check of one case: `key` identifies the root cause, `what` is human-readable.
#[derive(Clone, Debug)]
pub struct Fail {
    pub key: String,
    pub what: String,
}

impl Fail {
    pub fn new(key: impl Into<String>, what: impl Into<String>) -> Fail {
        Fail { key: key.into(), what: what.into() }
    }
    pub fn panic(op: &str, p: &PanicInfo) -> Fail {
        Fail { key: format!("{op}:{}", p.key()), what: format!("{op} panicked at {}: {}", p.loc, p.msg) }
    }
}

pub type CheckResult = Result<(), Fail>;

#[macro_export]
macro_rules! fail {
    ($key:expr, $($arg:tt)*) => {
        return Err($crate::engine::Fail::new($key, format!($($arg)*)))
    };
}

#[derive(Default)]
pub struct Report {
    pub prop: String,
    pub subs: BTreeMap<String, Stats>,
    pub exhaustive: BTreeMap<String, bool>,
    pub violations: Vec<Violation>,
    pub assumptions: Vec<String>,
    pub notes: Vec<String>,
    /// machinery failure: the run could not decide (exit 2)
    pub inconclusive: Option<String>,
}

impl Report {
    pub fn new(prop: &str) -> Report { Report { prop: prop.to_string(), ..Default::default() } }
    pub fn stats(&mut self, sub: &str) -> &mut Stats { self.subs.entry(sub.to_string()).or_default() }
    pub fn assume(&mut self, s: &str) { self.assumptions.push(s.to_string()); }
    pub fn note(&mut self, s: impl Into<String>) { self.notes.push(s.into()); }
    pub fn violation(&mut self, sub: &str, f: Fail, case: Value) {
        self.violations.push(Violation { sub: sub.to_string(), key: f.key, what: f.what, case });
    }
    pub fn to_json(&self, ctx: &Ctx, wall_s: f64) -> Value {
        let mut evaluations = 0u64;
        let mut distinct = 0u64;
        let mut subs = serde_json::Map::new();
        for (name, s) in &self.subs {
            evaluations += s.evaluations;
            distinct += s.distinct_nontrivial();
            let _ = subs.insert(
                name.clone(),
                json!({
                    "evaluations": s.evaluations,
                    "distinct_nontrivial": s.distinct_nontrivial(),
                    "classes": s.classes,
                    "maxima": s.maxima,
                    "samples": s.samples,
                    "exhaustive": self.exhaustive.get(name).copied().unwrap_or(false),
                }),
            );
        }
        json!({
            "property_id": self.prop,
            "profile": profile_name(),
            "tier": if ctx.quick() { "quick" } else { "thorough" },
            "seed": ctx.seed,
            "evaluations": evaluations,
            "distinct_nontrivial": distinct,
            "subs": subs,
            "violations": self.violations,
            "assumptions": self.assumptions,
            "notes": self.notes,
            "inconclusive": self.inconclusive,
            "wall_s": wall_s,
        })
    }
}

// ---------------------------------------------------------------------------------------------
// Generated cases: proptest per shard

fn shard_seed(ctx: &Ctx, prop: &str, sub: &str, shard: u32) -> u64 {
    hash_of(&(ctx.seed, prop, sub, shard, "fips204-verif-v1"))
}

/// Run `total` generated cases of `strategy` through `check`, sharded deterministically.
/// On failure proptest shrinks the case; the minimal failing case becomes a violation.
pub fn run_generated<C, S, F>(ctx: &Ctx, rep: &mut Report, sub: &str, total: u32, make: impl Fn() -> S + Sync, check: F)
where
    C: std::fmt::Debug + Serialize + Clone,
    S: Strategy<Value = C>,
    F: Fn(&C, &mut Stats) -> CheckResult + Sync,
{
    let prop = rep.prop.clone();
    let per = total / SHARDS;
    let extra = total % SHARDS;
    let results: Vec<(Stats, Option<(Fail, Value)>)> = (0..SHARDS)
        .into_par_iter()
        .map(|shard| {
            let cases = per + u32::from(shard < extra);
            let mut stats = Stats::default();
            if cases == 0 {
                return (stats, None);
            }
            let config = Config {
                cases,
                failure_persistence: None,
                rng_seed: RngSeed::Fixed(shard_seed(ctx, &prop, sub, shard)),
                max_shrink_iters: 200,
                max_global_rejects: 65_536,
                ..Config::default()
            };
            let mut runner = TestRunner::new(config);
            let state: RefCell<(Stats, Option<Fail>)> = RefCell::new((Stats::default(), None));
            let res = runner.run(&make(), |case| {
                let _wd = watch(|| format!("{prop}/{sub}: {case:?}"));
                let mut st = state.borrow_mut();
                if st.1.is_some() {
                    // shrinking phase: do not count
                    let mut scratch = Stats::default();
                    return match check(&case, &mut scratch) {
                        Ok(()) => Ok(()),
                        Err(f) => {
                            let msg = f.what.clone();
                            st.1 = Some(f);
                            Err(TestCaseError::fail(msg))
                        }
                    };
                }
                match check(&case, &mut st.0) {
                    Ok(()) => Ok(()),
                    Err(f) => {
                        let msg = f.what.clone();
                        st.1 = Some(f);
                        Err(TestCaseError::fail(msg))
                    }
                }
            });
            let (s, last_fail) = state.into_inner();
            stats.merge(s);
            match res {
                Ok(()) => (stats, None),
                Err(TestError::Fail(reason, minimal)) => {
                    // re-run the minimal case once to get the Fail that belongs to it
                    let mut scratch = Stats::default();
                    let f = match check(&minimal, &mut scratch) {
                        Err(f) => f,
                        Ok(()) => last_fail.unwrap_or_else(|| Fail::new("unstable", format!("{reason}"))),
                    };
                    (stats, Some((f, serde_json::to_value(&minimal).expect("case serialises"))))
                }
                Err(TestError::Abort(reason)) => {
                    (stats, Some((Fail::new("harness:abort", format!("proptest aborted: {reason}")), Value::Null)))
                }
            }
        })
        .collect();
    for (s, v) in results {
        rep.stats(sub).merge(s);
        if let Some((f, case)) = v {
            if f.key == "harness:abort" {
                rep.inconclusive = Some(f.what);
            } else if !rep.violations.iter().any(|x| x.sub == sub && x.key == f.key) {
                rep.violation(sub, f, case);
            }
        }
    }
}

/// Exhaustive / enumerated sweep over `0..n`, split in contiguous chunks. `check(i, stats)`.
/// Reports the smallest failing element per distinct key.
pub fn run_sweep<F>(rep: &mut Report, sub: &str, n: u64, exhaustive: bool, check: F, describe: impl Fn(u64) -> Value)
where
    F: Fn(u64, &mut Stats) -> CheckResult + Sync,
{
    let chunks: u64 = 256;
    let per = n.div_ceil(chunks);
    let results: Vec<(Stats, Vec<(u64, Fail)>)> = (0..chunks)
        .into_par_iter()
        .map(|c| {
            let mut stats = Stats::default();
            let mut fails: Vec<(u64, Fail)> = Vec::new();
            let lo = c * per;
            let hi = ((c + 1) * per).min(n);
            let _wd = watch(|| format!("{sub}: sweep elements {lo}..{hi}"));
            for i in lo..hi {
                if let Err(f) = check(i, &mut stats) {
                    if !fails.iter().any(|(_, g)| g.key == f.key) {
                        fails.push((i, f));
                    }
                    if fails.len() > 8 {
                        break;
                    }
                }
            }
            (stats, fails)
        })
        .collect();
    let mut all: Vec<(u64, Fail)> = Vec::new();
    for (s, f) in results {
        rep.stats(sub).merge(s);
        all.extend(f);
    }
    all.sort_by_key(|(i, _)| *i);
    for (i, f) in all {
        if !rep.violations.iter().any(|x| x.sub == sub && x.key == f.key) {
            rep.violation(sub, f, describe(i));
        }
    }
    let _ = rep.exhaustive.insert(sub.to_string(), exhaustive);
}

/// Plain parallel map over a prepared list of cases (constructed, not sampled).
pub fn run_list<C, F>(rep: &mut Report, sub: &str, cases: &[C], check: F)
where
    C: Sync + Serialize,
    F: Fn(&C, &mut Stats) -> CheckResult + Sync,
{
    let results: Vec<(Stats, Option<(usize, Fail)>)> = cases
        .par_iter()
        .enumerate()
        .map(|(i, c)| {
            let mut stats = Stats::default();
            let _wd = watch(|| format!("{sub}: list element {i}"));
            let r = check(c, &mut stats);
            (stats, r.err().map(|f| (i, f)))
        })
        .collect();
    for (s, f) in results {
        rep.stats(sub).merge(s);
        if let Some((i, f)) = f {
            if !rep.violations.iter().any(|x| x.sub == sub && x.key == f.key) {
                rep.violation(sub, f, serde_json::to_value(&cases[i]).expect("case serialises"));
            }
        }
    }
}

pub fn hex_abbrev(b: &[u8]) -> String {
    if b.len() <= 24 {
        hex::encode(b)
    } else {
        format!("{}..{}({}B)", hex::encode(&b[..12]), hex::encode(&b[b.len() - 6..]), b.len())
    }
}
