//! Glue for coverage-guided targets: the fuzzer's bytes are decoded through
//! `arbitrary::Unstructured` (src/arb.rs) into the same structured case types the property checks
//! use, and the same check function is the in-target oracle.
//!
//! (proptest's pass-through RNG was tried first and abandoned: it yields zeros once its window is
//! exhausted, every RNG fork halves the window, and rand's uniform sampling rejects a zero word
//! forever for ranges that are not powers of two — the target hung.)

use crate::arb::Arb;
use crate::engine::{CheckResult, Stats};
use arbitrary::Unstructured;
use serde::Serialize;

pub fn case_from_bytes<C: Arb>(data: &[u8]) -> Option<C> {
    if data.len() < 4 {
        return None;
    }
    C::arb(&mut Unstructured::new(data)).ok()
}

/// Run one fuzz input: on a failed check, print a machine-readable line and abort (libFuzzer saves the input).
pub fn run_one<C, F>(prop: &str, sub: &str, data: &[u8], check: F)
where
    C: Arb + Serialize,
    F: Fn(&C, &mut Stats) -> CheckResult,
{
    let Some(case) = case_from_bytes::<C>(data) else { return };
    let mut st = Stats::default();
    if let Err(f) = check(&case, &mut st) {
        let rec = serde_json::json!({"property": prop, "sub": sub, "key": f.key, "what": f.what, "case": case});
        eprintln!("FUZZ-VIOLATION {rec}");
        std::process::abort();
    }
}

// ---------------------------------------------------------------------------------------------
// Raw-bytes target (C04 / C03): the fuzzer's bytes ARE the 32 bytes the caller's RNG hands out.

use crate::engine::{guarded, Fail};
use crate::libapi::{libs, TestRng};
use crate::refmodel as rf;

/// `Err((property, fail))` on a violation.
pub fn raw_keygen_sign(data: &[u8]) -> Result<(), (&'static str, Fail)> {
    if data.len() < 34 {
        return Ok(());
    }
    let libr = libs()[(data[0] % 3) as usize];
    let p = libr.p();
    let sel = data[1];
    let xi: [u8; 32] = core::array::from_fn(|i| data[2 + i]);
    if sel & 1 == 0 {
        let (rpk, rsk) = rf::keygen_internal(&p, &xi);
        for modfn in [false, true] {
            let mut rng = TestRng::replay(&xi);
            let r = guarded(|| if modfn { libr.keygen_with_rng_modfn(&mut rng) } else { libr.keygen_with_rng(&mut rng) }.map(|(pk, sk)| (pk.to_bytes(), sk.to_bytes())));
            match r {
                Ok(Ok((pk, sk))) => {
                    if pk != rpk || sk != rsk {
                        return Err(("C04", Fail::new("keygen_rng_mismatch", format!("set {}: try_keygen_with_rng on the draw {} differs from KeyGen_internal", p.id, hex::encode(xi)))));
                    }
                }
                Ok(Err(e)) => return Err(("C04", Fail::new("keygen_rng_err", format!("set {}: try_keygen_with_rng failed ({e}) although the RNG delivered the 32 bytes {}", p.id, hex::encode(xi))))),
                Err(pi) => return Err(("C04", Fail::panic("try_keygen_with_rng", &pi))),
            }
        }
    } else {
        let rest = &data[34..];
        let mode = rf::MODES[((sel >> 1) % 4) as usize];
        let clen = (rest.first().copied().unwrap_or(0) as usize).min(rest.len().saturating_sub(1)).min(255);
        let (ctx, msg) = if rest.is_empty() { (&rest[..0], &rest[..0]) } else { (&rest[1..1 + clen], &rest[1 + clen..]) };
        let key_seed = [sel >> 3; 32];
        let (_, rsk) = rf::keygen_internal(&p, &key_seed);
        let Ok((rsig, _)) = rf::sign(&p, &rsk, msg, ctx, mode, &xi, 400) else { return Ok(()) };
        let (_, sk) = libr.keygen_from_seed(&key_seed);
        let mut rng = TestRng::replay(&xi);
        match guarded(|| sk.sign(&mut rng, msg, ctx, mode)) {
            Ok(Ok(s)) => {
                if s != rsig {
                    return Err(("C03", Fail::new("sign_mismatch", format!("set {} {}: signature differs from FIPS 204 Sign for rnd {}", p.id, mode.tag(), hex::encode(xi)))));
                }
            }
            Ok(Err(e)) => return Err(("C03", Fail::new("sign_err", format!("set {}: signing failed ({e}) although the RNG delivered 32 bytes", p.id)))),
            Err(pi) => return Err(("C03", Fail::panic("sign", &pi))),
        }
    }
    Ok(())
}

pub fn replay_raw(prop: &str, case: &serde_json::Value) -> Option<crate::engine::CheckResult> {
    let data = hex::decode(case.get("raw_hex")?.as_str()?).ok()?;
    Some(match raw_keygen_sign(&data) {
        Err((p, f)) if p == prop => Err(f),
        _ => Ok(()),
    })
}
