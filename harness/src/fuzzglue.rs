//! Glue for coverage-guided targets: the fuzzer's bytes are decoded through
//! `arbitrary::Unstructured` (src/arb.rs) into the same structured case types the property checks
//! use, and the same check function is the in-target oracle.
//!
//! (proptest's pass-through RNG was tried first and abandoned: it yields zeros once its window is
//! exhausted, every RNG fork halves the window, and rand's uniform sampling rejects a zero word
//! forever for ranges that are not powers of two — the target hung.)

use crate::arb::Arb;
use crate::engine::{CheckResult, Stats};
use arbitrary::Unstructured;
use serde::Serialize;

pub fn case_from_bytes<C: Arb>(data: &[u8]) -> Option<C> {
    if data.len() < 4 {
        return None;
    }
    C::arb(&mut Unstructured::new(data)).ok()
}

/// Run one fuzz input: on a failed check, print a machine-readable line and abort (libFuzzer saves the input).
pub fn run_one<C, F>(prop: &str, sub: &str, data: &[u8], check: F)
where
    C: Arb + Serialize,
    F: Fn(&C, &mut Stats) -> CheckResult,
{
    let Some(case) = case_from_bytes::<C>(data) else { return };
    let mut st = Stats::default();
    if let Err(f) = check(&case, &mut st) {
        let rec = serde_json::json!({"property": prop, "sub": sub, "key": f.key, "what": f.what, "case": case});
        eprintln!("FUZZ-VIOLATION {rec}");
        std::process::abort();
    }
}
