//! Sparse-coset aligned-residue construction (DESIGN 3.2(c)): an in-norm response vector `z`
//! for which the 256 inputs of one inverse NTT in `verify` are sign-aligned, so that their
//! unreduced sum exceeds 2^31. Depends only on `rho` and FIPS 204 (matrix A, NTT ordering), not
//! on the code under test.
//!
//! z_j(X) = sum_{k<8} a_{jk} X^{32k}; NTT(z_j) is constant on each of the 8 blocks of 32
//! consecutive positions (value v_{j,c} = sum_k V[c][k] a_{jk}). For every (j, c) all v in Z_q are
//! scored by g(v) = sum_{n in block c} cen(A[row][j][n] * v mod q); the top K are kept and a
//! meet-in-the-middle over the two halves of the blocks finds combinations whose preimage
//! a = V^-1 v is small enough to be a legal response coefficient.

use crate::refmodel::{self as rf, Params, Poly, Q};
use rayon::prelude::*;
use serde::{Deserialize, Serialize};

#[derive(Clone, Debug, Serialize, Deserialize)]
pub struct Aligned {
    pub set: u32,
    pub rho: Vec<u8>,
    pub row: usize,
    /// a[j][k]: coefficient of X^{32k} in z_j
    pub a: Vec<Vec<i64>>,
    /// sum over all 256 positions and all j of cen(A[row][j][n] * NTT(z_j)[n] mod q) (the estimate)
    pub estimate: i64,
}

impl Aligned {
    pub fn z(&self, p: &Params) -> Vec<Poly> {
        (0..p.l)
            .map(|j| {
                let mut z = rf::ZERO;
                for k in 0..8 {
                    z[32 * k] = self.a[j][k];
                }
                z
            })
            .collect()
    }
}

fn cen(x: i64) -> i64 { rf::mod_pm(x, Q) }

fn inv_mod(a: i64) -> i64 { rf::pow_mod(a, (Q - 2) as u64) }

/// V[c][k] = NTT(X^{32k})[32c], checked to be constant on the block.
fn vandermonde() -> [[i64; 8]; 8] {
    let mut v = [[0i64; 8]; 8];
    for k in 0..8 {
        let mut x = rf::ZERO;
        x[32 * k] = 1;
        let xh = rf::ntt(&x);
        for c in 0..8 {
            for n in 0..32 {
                assert_eq!(xh[32 * c + n], xh[32 * c], "harness: NTT of X^(32k) not constant on block");
            }
            v[c][k] = xh[32 * c];
        }
    }
    v
}

fn invert8(m: &[[i64; 8]; 8]) -> [[i64; 8]; 8] {
    let mut a = [[0i64; 16]; 8];
    for i in 0..8 {
        for j in 0..8 {
            a[i][j] = m[i][j];
        }
        a[i][8 + i] = 1;
    }
    for col in 0..8 {
        let piv = (col..8).find(|&r| a[r][col] != 0).expect("harness: singular Vandermonde");
        a.swap(col, piv);
        let inv = inv_mod(a[col][col]);
        for j in 0..16 {
            a[col][j] = a[col][j] * inv % Q;
        }
        for r in 0..8 {
            if r != col && a[r][col] != 0 {
                let f = a[r][col];
                for j in 0..16 {
                    a[r][j] = (a[r][j] - f * a[col][j]).rem_euclid(Q);
                }
            }
        }
    }
    let mut out = [[0i64; 8]; 8];
    for i in 0..8 {
        for j in 0..8 {
            out[i][j] = a[i][8 + j];
        }
    }
    out
}

/// top-K values v of g(v) = sum_n cen(coeffs[n] * v mod q)
fn top_k(coeffs: &[i64], k: usize) -> Vec<(i64, i64)> {
    let chunks = 64i64;
    let per = (Q + chunks - 1) / chunks;
    let mut all: Vec<(i64, i64)> = (0..chunks)
        .into_par_iter()
        .flat_map_iter(|c| {
            let mut best: Vec<(i64, i64)> = Vec::with_capacity(k + 1);
            let lo = c * per;
            let hi = ((c + 1) * per).min(Q);
            for v in lo..hi {
                let mut g = 0i64;
                for &a in coeffs {
                    let r = a * v % Q;
                    g += if 2 * r > Q { r - Q } else { r };
                }
                if best.len() < k || g > best[best.len() - 1].0 {
                    best.push((g, v));
                    best.sort_by(|x, y| y.0.cmp(&x.0));
                    best.truncate(k);
                }
            }
            best.into_iter()
        })
        .collect();
    all.sort_by(|x, y| y.0.cmp(&x.0));
    all.truncate(k);
    all
}

struct Half {
    a: [i64; 8],
    g: i64,
    idx: [u8; 4],
}

fn half_combos(cands: &[Vec<(i64, i64)>], cosets: [usize; 4], vinv: &[[i64; 8]; 8]) -> Vec<Half> {
    let k = cands[0].len();
    let mut out = Vec::with_capacity(k * k * k * k);
    for i0 in 0..k {
        for i1 in 0..k {
            for i2 in 0..k {
                for i3 in 0..k {
                    let idx = [i0, i1, i2, i3];
                    let mut a = [0i64; 8];
                    let mut g = 0;
                    for (t, &c) in cosets.iter().enumerate() {
                        let (gv, v) = cands[c][idx[t]];
                        g += gv;
                        for r in 0..8 {
                            a[r] = (a[r] + vinv[r][c] * v) % Q;
                        }
                    }
                    out.push(Half { a, g, idx: [i0 as u8, i1 as u8, i2 as u8, i3 as u8] });
                }
            }
        }
    }
    out
}

/// Best small-preimage combination for one polynomial: returns (a[0..8], g).
fn best_small_preimage(cands: &[Vec<(i64, i64)>], vinv: &[[i64; 8]; 8], bound: i64) -> Option<([i64; 8], i64)> {
    let mut left = half_combos(cands, [0, 1, 2, 3], vinv);
    let right = half_combos(cands, [4, 5, 6, 7], vinv);
    left.sort_by_key(|h| h.a[0]);
    let keys: Vec<i64> = left.iter().map(|h| h.a[0]).collect();
    let best = right
        .par_iter()
        .filter_map(|r| {
            // need cen(l.a[0] + r.a[0]) in [-bound, bound]  <=>  l.a[0] in [-bound - r0, bound - r0] mod q
            let lo = (-bound - r.a[0]).rem_euclid(Q);
            let width = 2 * bound; // inclusive interval [lo, lo + width] mod q
            let mut best: Option<(i64, usize)> = None;
            let mut scan = |from: i64, to: i64| {
                let s = keys.partition_point(|&x| x < from);
                for (li, l) in left.iter().enumerate().skip(s) {
                    if l.a[0] > to {
                        break;
                    }
                    let mut ok = true;
                    for t in 1..8 {
                        if cen(l.a[t] + r.a[t]).abs() > bound {
                            ok = false;
                            break;
                        }
                    }
                    if ok {
                        let g = l.g + r.g;
                        if best.map_or(true, |(bg, _)| g > bg) {
                            best = Some((g, li));
                        }
                    }
                }
            };
            if lo + width < Q {
                scan(lo, lo + width);
            } else {
                scan(lo, Q - 1);
                scan(0, lo + width - Q);
            }
            best.map(|(g, li)| (g, li, r.idx))
        })
        .max_by_key(|x| x.0)?;
    let (g, li, ridx) = best;
    let l = &left[li];
    let r = right.iter().find(|h| h.idx == ridx).expect("right half");
    let a: [i64; 8] = core::array::from_fn(|t| cen(l.a[t] + r.a[t]));
    Some((a, g))
}

/// Run the construction for `rho` and matrix row `row`; `k` candidates per (polynomial, block).
/// `None` when some polynomial has no small-preimage combination (ML-DSA-44 at k = 16).
pub fn construct(p: &Params, rho: &[u8], row: usize, k: usize) -> Option<Aligned> {
    let mut st = rf::SampleStats::default();
    let a_hat = rf::expand_a(p, rho, &mut st);
    let v = vandermonde();
    let vinv = invert8(&v);
    let bound = p.gamma1 - p.beta - 1;
    let mut a_out = Vec::new();
    let mut total = 0i64;
    for j in 0..p.l {
        let cands: Vec<Vec<(i64, i64)>> = (0..8).map(|c| top_k(&a_hat[row][j][32 * c..32 * c + 32], k)).collect();
        let (a, g) = best_small_preimage(&cands, &vinv, bound)?;
        total += g;
        a_out.push(a.to_vec());
    }
    let out = Aligned { set: p.id, rho: rho.to_vec(), row, a: a_out, estimate: total };
    // sanity: recompute the estimate directly from z with the reference NTT
    let z = out.z(p);
    let mut check = 0i64;
    for j in 0..p.l {
        let zh = rf::ntt(&z[j]);
        for n in 0..256 {
            check += cen(a_hat[row][j][n] * zh[n] % Q);
        }
        assert!(rf::inf_norm(&z[j..=j]) <= bound, "harness: aligned z out of norm");
    }
    assert_eq!(check, total, "harness: aligned-residue estimate inconsistent");
    Some(out)
}
