//! Maximal-growth response vector: an in-norm polynomial whose forward NTT, as the crate computes it
//! (no reduction inside the butterflies), makes coefficient 0 grow by about q/2 in every one of
//! the eight layers: |NTT(z)[0]| ~ gamma1 + 8 * q/2 ~ 34.0e6, the extreme input for `to_mont`
//! (Barrett reduction of x * 2^32) and for everything downstream. Depends only on zeta.
//!
//! z[0] = s*B; z[2^k] (k = 7..0) is the |v| <= B maximising cen(s * zeta^{brv(m)} * v) for the butterfly
//! that feeds position 0 in that layer (m = 1, 2, 4, ..., 128); all other coefficients are 0.

use crate::refmodel::{self as rf, Params, Poly, Q};

pub fn vector(p: &Params, negative: bool) -> Poly {
    let b = p.gamma1 - p.beta - 1;
    let s: i64 = if negative { -1 } else { 1 };
    let zt = rf::zetas();
    let mut z = rf::ZERO;
    z[0] = s * b;
    let mut len = 128usize;
    let mut m = 1usize;
    while len >= 1 {
        let zeta = zt[m];
        let zinv = rf::pow_mod(zeta, (Q - 2) as u64);
        // want zeta * v = r (mod q) with r as close to s*(q-1)/2 as possible and |v| <= b
        let mut r = s * (Q - 1) / 2;
        loop {
            let v = rf::mod_pm(r.rem_euclid(Q) * zinv % Q, Q);
            if v.abs() <= b {
                z[len] = v;
                break;
            }
            r -= s;
        }
        len /= 2;
        m *= 2;
    }
    z
}
