//! Shared generators.
