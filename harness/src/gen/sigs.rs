//! Structure-aware signatures: honest tuples, forge-by-construction under a `t1 = 0` public key,
//! field-level and encoding-level mutations (every class of hint-section malformation).

use super::{context, message, mode, mode_of, prg, prg_bytes, seed32, BytesSpec, Seed32};
use crate::refmodel::{self as rf, Mode, Params, Poly};
use proptest::prelude::*;
use rand_core::RngCore;
use serde::{Deserialize, Serialize};

#[derive(Clone, Debug)]
pub struct Tuple {
    pub set: u32,
    pub pk: Vec<u8>,
    pub m: Vec<u8>,
    pub ctx: Vec<u8>,
    pub mode: Mode,
    pub sig: Vec<u8>,
}

// ---------------------------------------------------------------------------------------------
// Honest tuples (reference signer)

#[derive(Clone, Debug, PartialEq, Eq, Hash, Serialize, Deserialize)]
pub struct HonestSpec {
    pub key: Seed32,
    pub msg: BytesSpec,
    pub ctx: BytesSpec,
    pub mode: u8,
    pub rnd: Seed32,
}

pub fn honest_spec(max_msg: u32) -> impl Strategy<Value = HonestSpec> {
    (seed32(), message(max_msg), context(), mode(), seed32())
        .prop_map(|(key, msg, ctx, mode, rnd)| HonestSpec { key, msg, ctx, mode, rnd })
}

pub struct HonestBuilt {
    pub tuple: Tuple,
    pub sk: Vec<u8>,
    pub rnd: [u8; 32],
    pub diag: rf::SignDiag,
}

pub fn build_honest(p: &Params, s: &HonestSpec) -> HonestBuilt {
    let (pk, sk) = rf::keygen_internal(p, &s.key.bytes());
    let m = s.msg.bytes();
    let ctx = s.ctx.bytes();
    let mode = mode_of(s.mode);
    let rnd = s.rnd.bytes();
    let (sig, diag) = rf::sign(p, &sk, &m, &ctx, mode, &rnd, 100_000).expect("reference signer on an honest key");
    HonestBuilt { tuple: Tuple { set: p.id, pk, m, ctx, mode, sig }, sk, rnd, diag }
}

// ---------------------------------------------------------------------------------------------
// Forge-by-construction under pk = rho || 0

#[derive(Clone, Copy, Debug, PartialEq, Eq, Hash, Serialize, Deserialize)]
pub enum ZVal {
    /// gamma1 - beta - 1: largest accepted magnitude
    MaxOk,
    MinOk,
    /// gamma1 - beta: smallest rejected magnitude
    Bound,
    NegBound,
    /// gamma1 (decodable upper end)
    Top,
    /// -gamma1 + 1 (decodable lower end)
    Bottom,
    Zero,
}

impl ZVal {
    pub fn value(self, p: &Params) -> i64 {
        match self {
            ZVal::MaxOk => p.gamma1 - p.beta - 1,
            ZVal::MinOk => -(p.gamma1 - p.beta - 1),
            ZVal::Bound => p.gamma1 - p.beta,
            ZVal::NegBound => -(p.gamma1 - p.beta),
            ZVal::Top => p.gamma1,
            ZVal::Bottom => -p.gamma1 + 1,
            ZVal::Zero => 0,
        }
    }
    pub fn in_norm(self) -> bool { matches!(self, ZVal::MaxOk | ZVal::MinOk | ZVal::Zero) }
}

pub fn zval() -> BoxedStrategy<ZVal> {
    prop_oneof![
        Just(ZVal::MaxOk),
        Just(ZVal::MinOk),
        Just(ZVal::Bound),
        Just(ZVal::NegBound),
        Just(ZVal::Top),
        Just(ZVal::Bottom),
        Just(ZVal::Zero)
    ]
    .boxed()
}

pub fn zval_ok() -> BoxedStrategy<ZVal> { prop_oneof![Just(ZVal::MaxOk), Just(ZVal::MinOk), Just(ZVal::Zero)].boxed() }

#[derive(Clone, Debug, PartialEq, Eq, Hash, Serialize, Deserialize)]
pub enum ZKind {
    /// uniform in [-(gamma1-beta-1), gamma1-beta-1]
    Uniform,
    /// uniform in [-255, 255]
    Small,
    Zero,
    /// every coefficient +-(gamma1-beta-1), signs from the seed
    AllExtreme,
    /// z has ONE non-zero coefficient, solved modulo q from ExpandA(rho) so that coefficient `j` of polynomial `i` of
    /// w'_approx = A z (t1 = 0) is exactly the `target`-th boundary value of Decompose / UseHint (w_targets); the hint
    /// at that coefficient is set / cleared as `hinted` says. A verifier meets such values only from an adversary:
    /// an honest signer never hints a coefficient whose low part is 0, and w' = q - gamma2 has probability 1/q.
    SolvedW { i: u8, j: u8, target: u8, hinted: bool },
}

/// boundary values of Decompose / HighBits / UseHint for w' in [0, q)
pub fn w_targets(p: &Params) -> Vec<i64> {
    use crate::refmodel::Q;
    let g2 = p.gamma2;
    let mut v = vec![0, 1, Q - 1, Q - 2, g2 - 1, g2, g2 + 1, Q - g2 - 1, Q - g2, Q - g2 + 1, Q - 1 - g2];
    let mmax = (Q - 1) / (2 * g2);
    for m in [1, 2, mmax / 2, mmax - 1, mmax] {
        for d in [-1i64, 0, 1] {
            v.push(2 * g2 * m + d); // low part 0 (and its neighbours): UseHint must step down / up correctly
            v.push(2 * g2 * m + g2 + d); // low part = gamma2: the tie of Decompose
        }
    }
    v.retain(|x| *x >= 0 && *x < Q);
    v
}

/// z (one non-zero coefficient, |c| <= bound) with (A z)[i][j] = target under the matrix of `rho`; `None` if no
/// position yields a small enough c (does not happen in practice: about 3-12 % of the L*256 positions do)
pub fn solve_single_z(p: &Params, rho: &[u8], i: usize, j: usize, target: i64, start: usize) -> Option<Vec<Poly>> {
    use crate::refmodel::{pow_mod, Q};
    let mut st = rf::SampleStats::default();
    let a_hat = rf::expand_a(p, rho, &mut st);
    let bound = p.gamma1 - p.beta - 1;
    for n in 0..p.l * 256 {
        let (l, k) = (((start + n) / 256) % p.l, (start + n) % 256);
        let a: Poly = rf::ntt_inv(&a_hat[i][l]);
        // coefficient j of a * X^k: + a[j-k] for j >= k, - a[256+j-k] otherwise
        let av = if j >= k { a[j - k] } else { -a[256 + j - k] };
        let av = av.rem_euclid(Q);
        if av == 0 {
            continue;
        }
        let c = rf::mod_pm(target.rem_euclid(Q) * pow_mod(av, (Q - 2) as u64) % Q, Q);
        if c != 0 && c.abs() <= bound {
            let mut z = vec![rf::ZERO; p.l];
            z[l][k] = c;
            return Some(z);
        }
    }
    None
}

#[derive(Clone, Debug, PartialEq, Eq, Hash, Serialize, Deserialize)]
pub enum HKind {
    Empty,
    /// `w` ones at random positions (w scaled to 0..=omega)
    Weight(u8),
    /// exactly omega ones
    Full,
    /// all omega ones in one polynomial
    AllInPoly(u8),
    /// indices 0 and 255 of every polynomial
    Edges,
}

#[derive(Clone, Debug, PartialEq, Eq, Hash, Serialize, Deserialize)]
pub struct ForgeSpec {
    pub rho: Seed32,
    pub seed: u64,
    pub zkind: ZKind,
    pub plants: Vec<(u8, u8, ZVal)>,
    pub hkind: HKind,
    pub msg: BytesSpec,
    pub ctx: BytesSpec,
    pub mode: u8,
}

pub fn forge_spec(max_msg: u32, plant: BoxedStrategy<ZVal>) -> impl Strategy<Value = ForgeSpec> {
    let zkind = prop_oneof![
        4 => Just(ZKind::Uniform),
        1 => Just(ZKind::Small),
        1 => Just(ZKind::Zero),
        1 => Just(ZKind::AllExtreme),
        3 => (any::<u8>(), any::<u8>(), any::<u8>(), any::<bool>()).prop_map(|(i, j, target, hinted)| ZKind::SolvedW { i, j, target, hinted }),
    ];
    let hkind = prop_oneof![
        1 => Just(HKind::Empty),
        3 => any::<u8>().prop_map(HKind::Weight),
        2 => Just(HKind::Full),
        1 => any::<u8>().prop_map(HKind::AllInPoly),
        1 => Just(HKind::Edges),
    ];
    let plants = proptest::collection::vec((any::<u8>(), any::<u8>(), plant), 0..3);
    (seed32(), any::<u64>(), zkind, plants, hkind, message(max_msg), context(), mode()).prop_map(
        |(rho, seed, zkind, plants, hkind, msg, ctx, mode)| ForgeSpec { rho, seed, zkind, plants, hkind, msg, ctx, mode },
    )
}

pub fn t1_zero_pk(p: &Params, rho: &[u8; 32]) -> Vec<u8> {
    let mut pk = vec![0u8; p.pk_len];
    pk[..32].copy_from_slice(rho);
    pk
}

pub fn make_z(p: &Params, seed: u64, kind: &ZKind, plants: &[(u8, u8, ZVal)]) -> Vec<Poly> {
    let mut r = prg(seed, "forge-z");
    let bound = p.gamma1 - p.beta - 1;
    let mut z: Vec<Poly> = (0..p.l)
        .map(|_| {
            core::array::from_fn(|_| match kind {
                ZKind::Uniform => (r.next_u64() % (2 * bound + 1) as u64) as i64 - bound,
                ZKind::Small => (r.next_u64() % 511) as i64 - 255,
                ZKind::Zero => 0,
                ZKind::AllExtreme => {
                    if r.next_u32() & 1 == 0 {
                        bound
                    } else {
                        -bound
                    }
                }
                ZKind::SolvedW { .. } => 0, // replaced in build_forge (needs rho)
            })
        })
        .collect();
    for (pi, ci, v) in plants {
        z[*pi as usize % p.l][*ci as usize] = v.value(p);
    }
    z
}

pub fn make_h(p: &Params, seed: u64, kind: &HKind) -> Vec<Poly> {
    let mut r = prg(seed, "forge-h");
    let mut h = vec![rf::ZERO; p.k];
    let mut place = |h: &mut Vec<Poly>, w: usize, only: Option<usize>| {
        let mut placed = 0;
        while placed < w {
            let i = only.unwrap_or((r.next_u32() as usize) % p.k);
            let j = (r.next_u32() as usize) % 256;
            if h[i][j] == 0 {
                h[i][j] = 1;
                placed += 1;
            }
        }
    };
    match kind {
        HKind::Empty => {}
        HKind::Weight(w) => {
            let w = (*w as usize * (p.omega + 1)) >> 8;
            place(&mut h, w, None);
        }
        HKind::Full => place(&mut h, p.omega, None),
        HKind::AllInPoly(i) => place(&mut h, p.omega, Some(*i as usize % p.k)),
        HKind::Edges => {
            let mut w = 0;
            for i in 0..p.k {
                for j in [0usize, 255] {
                    if w < p.omega {
                        h[i][j] = 1;
                        w += 1;
                    }
                }
            }
        }
    }
    h
}

/// c~ that makes (c~, z, h) verify under a public key whose t1 is zero.
pub fn ctilde_for_t1_zero(p: &Params, pk: &[u8], m_prime: &[u8], z: &[Poly], h: &[Poly]) -> Vec<u8> {
    debug_assert!(pk[32..].iter().all(|&b| b == 0));
    let tr = rf::h_bytes(&[pk], 64);
    let mu = rf::h_bytes(&[&tr, m_prime], 64);
    let dummy = vec![0u8; p.ctilde_len()];
    let wa = rf::w_approx(p, pk, &dummy, z); // independent of c~ because t1 = 0
    let w1: Vec<Poly> = (0..p.k).map(|i| core::array::from_fn(|j| rf::use_hint(p.gamma2, h[i][j], wa[i][j]))).collect();
    rf::h_bytes(&[&mu, &rf::w1_encode(p, &w1)], p.ctilde_len())
}

pub fn forge_fields(p: &Params, pk: &[u8], m: &[u8], ctx: &[u8], mode: Mode, z: &[Poly], h: &[Poly]) -> Vec<u8> {
    let m_prime = rf::format_message(mode, m, ctx);
    let c = ctilde_for_t1_zero(p, pk, &m_prime, z, h);
    rf::sig_encode(p, &c, z, h)
}

pub struct ForgeBuilt {
    pub tuple: Tuple,
    pub z: Vec<Poly>,
    pub h: Vec<Poly>,
    /// every coefficient of z satisfies the norm bound
    pub in_norm: bool,
}

pub fn build_forge(p: &Params, s: &ForgeSpec) -> ForgeBuilt {
    let pk = t1_zero_pk(p, &s.rho.bytes());
    let mut z = make_z(p, s.seed, &s.zkind, &s.plants);
    let mut h = make_h(p, s.seed, &s.hkind);
    if let ZKind::SolvedW { i, j, target, hinted } = &s.zkind {
        let (i, j) = (*i as usize % p.k, *j as usize);
        let t = w_targets(p);
        let target = t[*target as usize % t.len()];
        if let Some(zs) = solve_single_z(p, &s.rho.bytes(), i, j, target, (s.seed % 4096) as usize) {
            z = zs;
            debug_assert_eq!(rf::mod_q(rf::w_approx(p, &pk, &vec![0u8; p.ctilde_len()], &z)[i][j]), target);
        }
        // the hint at the solved coefficient is as requested; total weight stays <= omega
        if h[i][j] == 0 && *hinted {
            let weight: i64 = h.iter().map(|q| q.iter().sum::<i64>()).sum();
            if weight as usize >= p.omega {
                'outer: for hp in h.iter_mut() {
                    for x in hp.iter_mut() {
                        if *x == 1 {
                            *x = 0;
                            break 'outer;
                        }
                    }
                }
            }
        }
        h[i][j] = i64::from(*hinted);
    }
    let m = s.msg.bytes();
    let ctx = s.ctx.bytes();
    let mode = mode_of(s.mode);
    let sig = forge_fields(p, &pk, &m, &ctx, mode, &z, &h);
    let in_norm = rf::inf_norm(&z) < p.gamma1 - p.beta;
    ForgeBuilt { tuple: Tuple { set: p.id, pk, m, ctx, mode, sig }, z, h, in_norm }
}

// ---------------------------------------------------------------------------------------------
// Mutations

#[derive(Clone, Debug, PartialEq, Eq, Hash, Serialize, Deserialize)]
pub enum SigMut {
    /// flip one bit anywhere (index scaled into the signature)
    FlipBit(u32),
    CtildeBit(u16),
    SetZ { poly: u8, idx: u8, val: ZVal },
    /// z coefficient +1 / -1
    NudgeZ { poly: u8, idx: u8, up: bool },
    HintAdd { poly: u8, idx: u8 },
    HintRemove { nth: u8 },
    // ---- encoding-level malformations of the hint section ----
    /// y[n+1] = y[n] inside one polynomial (repeated index)
    HintRepeat { nth: u8 },
    /// swap two adjacent indices of one polynomial (descending pair)
    HintDescend { nth: u8 },
    /// make count byte i smaller than count byte i-1
    CountDecrease { poly: u8 },
    /// count byte above omega
    CountAbove { poly: u8, val: u8 },
    /// non-zero byte in the unused part of the index area
    SlackNonzero { pos: u8, val: u8 },
    /// lower the last count byte(s) so that a former index byte becomes "unused"
    LastCountShort { by: u8 },
    /// raise a count byte without supplying indices (reads slack zeros as indices)
    CountRaise { poly: u8, by: u8 },
    /// set one index byte to 0 / 255
    IndexEdge { nth: u8, high: bool },
    /// index bytes 0, 1, 2, ... strictly increasing through the whole index area and on through the count
    /// bytes (first count byte = `bound` > omega): a decoder that trusts a count byte before checking it
    /// against omega walks its index past the end of the section
    HintRunaway { bound: u8 },
    /// the index list of one polynomial starts with position 0 listed twice (counts raised by one)
    HintLeadingZeroTwice { poly: u8 },
    /// the nth index byte is listed twice in a row (later index bytes shift by one, counts from its polynomial on grow
    /// by one): the SET of hinted positions is unchanged, so a decoder that tolerates the repetition yields a signature
    /// that verifies
    HintDuplicateInsert { nth: u8 },
    RandomZ(u64),
    RandomHint(u64),
    RandomAll(u64),
}

pub fn sig_mut() -> impl Strategy<Value = SigMut> {
    prop_oneof![
        3 => any::<u32>().prop_map(SigMut::FlipBit),
        1 => any::<u16>().prop_map(SigMut::CtildeBit),
        4 => (any::<u8>(), any::<u8>(), zval()).prop_map(|(poly, idx, val)| SigMut::SetZ { poly, idx, val }),
        1 => (any::<u8>(), any::<u8>(), any::<bool>()).prop_map(|(poly, idx, up)| SigMut::NudgeZ { poly, idx, up }),
        2 => (any::<u8>(), any::<u8>()).prop_map(|(poly, idx)| SigMut::HintAdd { poly, idx }),
        2 => any::<u8>().prop_map(|nth| SigMut::HintRemove { nth }),
        2 => any::<u8>().prop_map(|nth| SigMut::HintRepeat { nth }),
        2 => any::<u8>().prop_map(|nth| SigMut::HintDescend { nth }),
        2 => any::<u8>().prop_map(|poly| SigMut::CountDecrease { poly }),
        2 => (any::<u8>(), any::<u8>()).prop_map(|(poly, val)| SigMut::CountAbove { poly, val }),
        2 => (any::<u8>(), 1u8..=255).prop_map(|(pos, val)| SigMut::SlackNonzero { pos, val }),
        2 => (1u8..4).prop_map(|by| SigMut::LastCountShort { by }),
        2 => (any::<u8>(), 1u8..4).prop_map(|(poly, by)| SigMut::CountRaise { poly, by }),
        1 => (any::<u8>(), any::<bool>()).prop_map(|(nth, high)| SigMut::IndexEdge { nth, high }),
        1 => any::<u8>().prop_map(|bound| SigMut::HintRunaway { bound }),
        2 => any::<u8>().prop_map(|poly| SigMut::HintLeadingZeroTwice { poly }),
        2 => any::<u8>().prop_map(|nth| SigMut::HintDuplicateInsert { nth }),
        1 => any::<u64>().prop_map(SigMut::RandomZ),
        1 => any::<u64>().prop_map(SigMut::RandomHint),
        1 => any::<u64>().prop_map(SigMut::RandomAll),
    ]
}

impl SigMut {
    pub fn tag(&self) -> &'static str {
        match self {
            SigMut::FlipBit(_) => "FlipBit",
            SigMut::CtildeBit(_) => "CtildeBit",
            SigMut::SetZ { .. } => "SetZ",
            SigMut::NudgeZ { .. } => "NudgeZ",
            SigMut::HintAdd { .. } => "HintAdd",
            SigMut::HintRemove { .. } => "HintRemove",
            SigMut::HintRepeat { .. } => "HintRepeat",
            SigMut::HintDescend { .. } => "HintDescend",
            SigMut::CountDecrease { .. } => "CountDecrease",
            SigMut::CountAbove { .. } => "CountAbove",
            SigMut::SlackNonzero { .. } => "SlackNonzero",
            SigMut::LastCountShort { .. } => "LastCountShort",
            SigMut::CountRaise { .. } => "CountRaise",
            SigMut::IndexEdge { .. } => "IndexEdge",
            SigMut::HintRunaway { .. } => "HintRunaway",
            SigMut::HintLeadingZeroTwice { .. } => "HintLeadingZeroTwice",
            SigMut::HintDuplicateInsert { .. } => "HintDuplicateInsert",
            SigMut::RandomZ(_) => "RandomZ",
            SigMut::RandomHint(_) => "RandomHint",
            SigMut::RandomAll(_) => "RandomAll",
        }
    }
    /// does the mutation act on decoded fields (and can therefore be re-hashed under a t1=0 key)?
    pub fn field_level(&self) -> bool {
        matches!(self, SigMut::SetZ { .. } | SigMut::NudgeZ { .. } | SigMut::HintAdd { .. } | SigMut::HintRemove { .. })
    }
}

/// Apply one mutation to signature bytes. Field-level mutations decode with the reference,
/// change the field and re-encode canonically; they leave the signature unchanged when the
/// hint section does not decode or the change is impossible (e.g. adding a hint at weight omega).
pub fn apply_mut(p: &Params, sig: &[u8], m: &SigMut) -> Vec<u8> {
    let mut s = sig.to_vec();
    let hoff = p.sig_h_off();
    let om = p.omega;
    let used = |s: &[u8]| -> usize { (s[hoff + om + p.k - 1] as usize).min(om) };
    match m {
        SigMut::FlipBit(i) => {
            let bit = ((u64::from(*i) * (s.len() as u64 * 8)) >> 32) as usize;
            s[bit / 8] ^= 1 << (bit % 8);
        }
        SigMut::CtildeBit(i) => {
            let bit = (*i as usize * p.ctilde_len() * 8) >> 16;
            s[bit / 8] ^= 1 << (bit % 8);
        }
        SigMut::SetZ { .. } | SigMut::NudgeZ { .. } | SigMut::HintAdd { .. } | SigMut::HintRemove { .. } => {
            let f = rf::sig_decode(p, sig);
            let Ok(mut h) = f.h else { return s };
            let mut z = f.z;
            match m {
                SigMut::SetZ { poly, idx, val } => z[*poly as usize % p.l][*idx as usize] = val.value(p),
                SigMut::NudgeZ { poly, idx, up } => {
                    let c = &mut z[*poly as usize % p.l][*idx as usize];
                    if *up && *c < p.gamma1 {
                        *c += 1;
                    } else if !*up && *c > -p.gamma1 + 1 {
                        *c -= 1;
                    }
                }
                SigMut::HintAdd { poly, idx } => {
                    let w: i64 = h.iter().map(|x| x.iter().sum::<i64>()).sum();
                    if (w as usize) < om {
                        h[*poly as usize % p.k][*idx as usize] = 1;
                    }
                }
                SigMut::HintRemove { nth } => {
                    let ones: Vec<(usize, usize)> =
                        (0..p.k).flat_map(|i| (0..256).map(move |j| (i, j))).filter(|&(i, j)| h[i][j] == 1).collect();
                    if !ones.is_empty() {
                        let (i, j) = ones[*nth as usize % ones.len()];
                        h[i][j] = 0;
                    }
                }
                _ => unreachable!(),
            }
            s = rf::sig_encode(p, &f.c_tilde, &z, &h);
        }
        SigMut::HintRepeat { nth } => {
            let n = used(&s);
            if n >= 2 {
                let i = *nth as usize % (n - 1);
                s[hoff + i + 1] = s[hoff + i];
            }
        }
        SigMut::HintDescend { nth } => {
            let n = used(&s);
            if n >= 2 {
                let i = *nth as usize % (n - 1);
                s.swap(hoff + i, hoff + i + 1);
            }
        }
        SigMut::CountDecrease { poly } => {
            let i = 1 + (*poly as usize % (p.k - 1));
            let prev = s[hoff + om + i - 1];
            if prev > 0 {
                s[hoff + om + i] = prev - 1;
            } else {
                s[hoff + om + i - 1] = 1;
                s[hoff + om + i] = 0;
            }
        }
        SigMut::CountAbove { poly, val } => {
            let i = *poly as usize % p.k;
            let v = om as u32 + 1 + (u32::from(*val) * (255 - om as u32)) / 256;
            s[hoff + om + i] = v.min(255) as u8;
        }
        SigMut::SlackNonzero { pos, val } => {
            let n = used(&s);
            if n < om {
                let i = n + (*pos as usize % (om - n));
                s[hoff + i] = *val;
            }
        }
        SigMut::LastCountShort { by } => {
            // lower every count byte that equals the final count
            let last = s[hoff + om + p.k - 1];
            let new = last.saturating_sub(*by);
            for i in 0..p.k {
                if s[hoff + om + i] > new {
                    s[hoff + om + i] = new;
                }
            }
        }
        SigMut::CountRaise { poly, by } => {
            let i = *poly as usize % p.k;
            for j in i..p.k {
                s[hoff + om + j] = s[hoff + om + j].saturating_add(*by).min(om as u8);
            }
        }
        SigMut::IndexEdge { nth, high } => {
            let n = used(&s);
            if n >= 1 {
                let i = *nth as usize % n;
                s[hoff + i] = if *high { 255 } else { 0 };
            }
        }
        SigMut::HintRunaway { bound } => {
            for i in 0..om {
                s[hoff + i] = i as u8;
            }
            // first count byte: a value above omega and above the last index byte; the remaining count
            // bytes keep increasing so that a runaway index keeps passing the ordering test
            let b = (om as u32 + 1 + (u32::from(*bound) * (250 - om as u32)) / 256) as u8;
            for j in 0..p.k {
                s[hoff + om + j] = b.saturating_add(j as u8);
            }
        }
        SigMut::HintLeadingZeroTwice { poly } => {
            // decode, force h[i][0] = 1, re-encode canonically, then insert a second 0 at the head of that
            // polynomial's index list (every later index byte shifts by one, counts from i on grow by one)
            let f = rf::sig_decode(p, sig);
            if let Ok(mut h) = f.h {
                let i = *poly as usize % p.k;
                let w: i64 = h.iter().map(|x| x.iter().sum::<i64>()).sum();
                if h[i][0] == 1 || (w as usize) < om {
                    h[i][0] = 1;
                    let w: usize = h.iter().map(|x| x.iter().sum::<i64>() as usize).sum();
                    if w < om {
                        s = rf::sig_encode(p, &f.c_tilde, &f.z, &h);
                        let start = if i == 0 { 0 } else { s[hoff + om + i - 1] as usize };
                        let used_n = s[hoff + om + p.k - 1] as usize;
                        for j in (start + 1..=used_n).rev() {
                            s[hoff + j] = s[hoff + j - 1];
                        }
                        s[hoff + start] = 0;
                        for j in i..p.k {
                            s[hoff + om + j] += 1;
                        }
                    }
                }
            }
        }
        SigMut::HintDuplicateInsert { nth } => {
            let n = used(&s);
            if n >= 1 && n < om && (0..p.k).all(|i| (s[hoff + om + i] as usize) <= om) {
                let i = *nth as usize % n;
                let pi = (0..p.k).find(|pi| (s[hoff + om + pi] as usize) > i).unwrap_or(p.k - 1);
                for j in (i + 2..=n).rev() {
                    s[hoff + j] = s[hoff + j - 1];
                }
                s[hoff + i + 1] = s[hoff + i];
                for j in pi..p.k {
                    s[hoff + om + j] += 1;
                }
            }
        }
        SigMut::RandomZ(seed) => {
            let zoff = p.sig_z_off();
            let r = prg_bytes(*seed, "mut-z", hoff - zoff);
            s[zoff..hoff].copy_from_slice(&r);
        }
        SigMut::RandomHint(seed) => {
            let r = prg_bytes(*seed, "mut-h", om + p.k);
            s[hoff..].copy_from_slice(&r);
        }
        SigMut::RandomAll(seed) => {
            s = prg_bytes(*seed, "mut-all", p.sig_len);
        }
    }
    s
}

/// Recompute c~ for the (z, h) inside `sig` under a t1 = 0 public key. `None` when the hint
/// section does not decode.
pub fn rehash_t1_zero(p: &Params, t: &Tuple, sig: &[u8]) -> Option<Vec<u8>> {
    let f = rf::sig_decode(p, sig);
    let h = f.h.ok()?;
    Some(forge_fields(p, &t.pk, &t.m, &t.ctx, t.mode, &f.z, &h))
}

/// Same for the internal interface: M' is the message itself.
pub fn rehash_t1_zero_internal(p: &Params, t: &Tuple, sig: &[u8]) -> Option<Vec<u8>> {
    let f = rf::sig_decode(p, sig);
    let h = f.h.ok()?;
    let c = ctilde_for_t1_zero(p, &t.pk, &t.m, &f.z, &h);
    Some(rf::sig_encode(p, &c, &f.z, &h))
}
