//! Near-twins of a byte string: what an implementation that memoises, caches or fingerprints its
//! last input could confuse with the original. Used as "history" in front of an operation (import the
//! twin, then the key) and, for checksum-preserving pairs, as the invalid follower of a valid key.

use super::{prg, prg_bytes};
use proptest::prelude::*;
use rand_core::RngCore;
use serde::{Deserialize, Serialize};

#[derive(Clone, Copy, Debug, PartialEq, Eq, Hash, Serialize, Deserialize)]
pub enum CompOp {
    /// w[i] += d, w[j] -= d (additive checksums of any word width)
    Add,
    /// w[i] ^= d, w[j] ^= d (xor folds)
    Xor,
    /// w[i] ^= d, w[i+1] ^= rotl(d, r) (rotate-xor rolling fingerprints); all r are produced by `variants`
    XorRot,
    /// b[i] += d, b[i+1] -= mult * d (polynomial rolling hashes with a small multiplier, byte granularity)
    Poly(u8),
}

#[derive(Clone, Debug, PartialEq, Eq, Hash, Serialize, Deserialize)]
pub enum Twin {
    /// the last n bytes replaced
    Tail { n: u16, seed: u64 },
    /// the first n bytes replaced
    Head { n: u16, seed: u64 },
    /// n bytes from relative position pos/65536 replaced
    Region { pos: u16, n: u16, seed: u64 },
    /// one byte changed
    Byte { pos: u16, mask: u8 },
    /// two words changed so that a weak checksum of the whole string is preserved
    Compensated { width: u8, op: CompOp, word: u16, gap: u8, delta: u64 },
}

pub const TWIN_LENS: [u16; 12] = [1, 2, 4, 8, 16, 31, 32, 33, 64, 96, 128, 320];

pub fn twin() -> impl Strategy<Value = Twin> {
    let n = any::<u16>().prop_map(|i| super::pick(&TWIN_LENS, i));
    prop_oneof![
        4 => (n.clone(), any::<u64>()).prop_map(|(n, seed)| Twin::Tail { n, seed }),
        2 => (n.clone(), any::<u64>()).prop_map(|(n, seed)| Twin::Head { n, seed }),
        2 => (any::<u16>(), n, any::<u64>()).prop_map(|(pos, n, seed)| Twin::Region { pos, n, seed }),
        2 => (any::<u16>(), 1u8..=255).prop_map(|(pos, mask)| Twin::Byte { pos, mask }),
        2 => (prop_oneof![Just(1u8), Just(2), Just(4), Just(8)], comp_op(), any::<u16>(), 1u8..4, any::<u64>())
            .prop_map(|(width, op, word, gap, delta)| Twin::Compensated { width, op, word, gap, delta }),
    ]
}

pub fn comp_op() -> impl Strategy<Value = CompOp> {
    prop_oneof![Just(CompOp::Add), Just(CompOp::Xor), Just(CompOp::XorRot), prop_oneof![Just(31u8), Just(33), Just(37), Just(131)].prop_map(CompOp::Poly)]
}

fn rd(b: &[u8], off: usize, w: usize) -> u64 {
    let mut a = [0u8; 8];
    a[..w].copy_from_slice(&b[off..off + w]);
    u64::from_le_bytes(a)
}
fn wr(b: &mut [u8], off: usize, w: usize, v: u64) { b[off..off + w].copy_from_slice(&v.to_le_bytes()[..w]); }
fn mask(w: usize) -> u64 { if w == 8 { u64::MAX } else { (1u64 << (8 * w)) - 1 } }
fn rotl(v: u64, r: u32, w: usize) -> u64 {
    let bits = 8 * w as u32;
    let r = r % bits;
    let v = v & mask(w);
    if r == 0 { v } else { ((v << r) | (v >> (bits - r))) & mask(w) }
}

/// Apply a compensated change at byte offsets `i`, `j` (word width `w`, both inside `b`), first-word delta `d`.
/// `rot`: rotation used by `XorRot`.
pub fn compensate(b: &mut [u8], w: usize, op: CompOp, i: usize, j: usize, d: u64, rot: u32) {
    let (a, c) = (rd(b, i, w), rd(b, j, w));
    match op {
        CompOp::Add => {
            wr(b, i, w, a.wrapping_add(d) & mask(w));
            wr(b, j, w, c.wrapping_sub(d) & mask(w));
        }
        CompOp::Xor => {
            wr(b, i, w, (a ^ d) & mask(w));
            wr(b, j, w, (c ^ d) & mask(w));
        }
        CompOp::XorRot => {
            wr(b, i, w, (a ^ d) & mask(w));
            wr(b, j, w, (c ^ rotl(d, rot, w)) & mask(w));
        }
        CompOp::Poly(m) => {
            // bytes: h = h*m + b  =>  b[i] += e, b[i+1] -= m*e keeps h (mod 2^k)
            let e = (d & 0xFF) as u8;
            b[i] = b[i].wrapping_add(e);
            b[j] = b[j].wrapping_sub(m.wrapping_mul(e));
        }
    }
}

impl Twin {
    /// All variants of this twin of `b` (one, except for `XorRot` which yields one per rotation). Every result
    /// differs from `b` and has the same length.
    pub fn variants(&self, b: &[u8]) -> Vec<Vec<u8>> {
        let len = b.len();
        let mut out: Vec<Vec<u8>> = Vec::new();
        match self {
            Twin::Tail { n, seed } => {
                let n = (*n as usize).min(len);
                let mut v = b.to_vec();
                v[len - n..].copy_from_slice(&prg_bytes(*seed, "twin", n));
                out.push(v);
            }
            Twin::Head { n, seed } => {
                let n = (*n as usize).min(len);
                let mut v = b.to_vec();
                v[..n].copy_from_slice(&prg_bytes(*seed, "twin", n));
                out.push(v);
            }
            Twin::Region { pos, n, seed } => {
                let n = (*n as usize).min(len);
                let start = (*pos as usize * (len - n + 1)) >> 16;
                let mut v = b.to_vec();
                v[start..start + n].copy_from_slice(&prg_bytes(*seed, "twin", n));
                out.push(v);
            }
            Twin::Byte { pos, mask } => {
                let mut v = b.to_vec();
                v[(*pos as usize * len) >> 16] ^= (*mask).max(1);
                out.push(v);
            }
            Twin::Compensated { width, op, word, gap, delta } => {
                let w = match op {
                    CompOp::Poly(_) => 1,
                    _ => (*width as usize).clamp(1, 8),
                };
                let words = len / w;
                let gap = match op {
                    CompOp::XorRot | CompOp::Poly(_) => 1,
                    _ => (*gap as usize).max(1),
                };
                if words > gap {
                    let i = ((*word as usize * (words - gap)) >> 16) * w;
                    let j = i + gap * w;
                    let d = (*delta & mask(w)).max(1);
                    let rots: Vec<u32> = if *op == CompOp::XorRot { (0..8 * w as u32).collect() } else { vec![0] };
                    for r in rots {
                        let mut v = b.to_vec();
                        compensate(&mut v, w, *op, i, j, d, r);
                        out.push(v);
                    }
                }
            }
        }
        let mut r = prg(0x7717, "twin-fix");
        for v in out.iter_mut() {
            if v.as_slice() == b {
                let k = (r.next_u32() as usize) % len;
                v[k] ^= 1 << (r.next_u32() % 8);
            }
        }
        out
    }
}
