//! Search key-generation seeds whose XOF streams take the samplers of key generation through rare
//! events: many RejNTTPoly rejections inside one matrix entry (more candidates needed than a fixed
//! look-ahead provides), a candidate exactly equal to q or q-1 (the two sides of the rejection bound), in
//! particular as the last candidate of a 168-byte SHAKE128 block, and RejBoundedPoly runs that need an
//! unusual number of SHAKE256 bytes (a further block). Everything here depends only on SHAKE and the
//! parameter set (FIPS 204 Algorithms 6, 30-33), not on the library.

use crate::refmodel::Params;
use rayon::prelude::*;
use serde::{Deserialize, Serialize};
use sha3::digest::{ExtendableOutput, Update, XofReader};

pub const Q: u32 = 8_380_417;

#[derive(Clone, Debug, Default, Serialize, Deserialize, PartialEq, Eq, Hash)]
pub struct SeedEvents {
    pub set: u32,
    pub xi: String,
    /// largest number of rejected candidates inside one matrix entry
    pub max_rej_entry: u32,
    /// candidate == q at a position that is the last of a SHAKE128 block (index % 56 == 55), before the entry completes
    pub q_at_block_end: u32,
    /// candidate == q anywhere before the entry completes
    pub q_any: u32,
    /// candidate == q-1 (largest accepted value)
    pub qm1_any: u32,
    /// rejected candidates over the whole matrix (cross-checked against the reference model's own count)
    pub total_rej: u32,
    /// largest number of SHAKE256 bytes one s1/s2 polynomial needs
    pub max_bytes_s: u32,
    /// smallest number of SHAKE256 bytes one s1/s2 polynomial needs
    pub min_bytes_s: u32,
    /// s1/s2 polynomials that end exactly at / one byte past a SHAKE256 block (136, 137, 272, 273 bytes)
    #[serde(default)]
    pub s_at_block_edge: u32,
}

pub fn xi_of(i: u64) -> [u8; 32] {
    let mut xi = [0xC3u8; 32];
    xi[..8].copy_from_slice(&i.to_le_bytes());
    xi
}

pub fn events(p: &Params, xi: &[u8; 32]) -> SeedEvents {
    let mut h = sha3::Shake256::default();
    h.update(xi);
    h.update(&[p.k as u8, p.l as u8]);
    let mut seed = [0u8; 128];
    h.finalize_xof().read(&mut seed);
    let (rho, rho_p) = (&seed[..32], &seed[32..96]);
    let mut ev = SeedEvents { set: p.id, xi: hex::encode(xi), min_bytes_s: u32::MAX, ..Default::default() };
    let mut buf = [0u8; 168 * 6];
    for r in 0..p.k {
        for s in 0..p.l {
            let mut g = sha3::Shake128::default();
            g.update(rho);
            g.update(&[s as u8, r as u8]);
            let mut rd = g.finalize_xof();
            rd.read(&mut buf);
            let (mut acc, mut rej, mut pos) = (0u32, 0u32, 0usize);
            while acc < 256 {
                if pos + 3 > buf.len() {
                    break; // > 80 rejections: practically unreachable
                }
                let v = u32::from(buf[pos]) | u32::from(buf[pos + 1]) << 8 | (u32::from(buf[pos + 2]) & 0x7F) << 16;
                let idx = pos / 3;
                pos += 3;
                if v < Q {
                    acc += 1;
                    if v == Q - 1 {
                        ev.qm1_any += 1;
                    }
                } else {
                    rej += 1;
                    if v == Q {
                        ev.q_any += 1;
                        if idx % 56 == 55 {
                            ev.q_at_block_end += 1;
                        }
                    }
                }
            }
            ev.max_rej_entry = ev.max_rej_entry.max(rej);
            ev.total_rej += rej;
        }
    }
    let bound = if p.eta == 2 { 15u8 } else { 9u8 };
    let mut sb = [0u8; 136 * 5];
    for r in 0..(p.l + p.k) {
        let mut hh = sha3::Shake256::default();
        hh.update(rho_p);
        hh.update(&[r as u8, 0]);
        hh.finalize_xof().read(&mut sb);
        let (mut acc, mut used) = (0u32, 0u32);
        for &z in sb.iter() {
            used += 1;
            if z & 15 < bound {
                acc += 1;
            }
            if acc < 256 && z >> 4 < bound {
                acc += 1;
            }
            if acc >= 256 {
                break;
            }
        }
        if matches!(used, 136 | 137 | 272 | 273) {
            ev.s_at_block_edge += 1;
        }
        ev.max_bytes_s = ev.max_bytes_s.max(used);
        ev.min_bytes_s = ev.min_bytes_s.min(used);
    }
    ev
}

/// Scan seeds `xi_of(0..n)`; keep a few seeds per event class.
pub fn search(p: &Params, n: u64) -> Vec<SeedEvents> {
    let chunks = 8192u64;
    let per = n.div_ceil(chunks);
    let keep = |v: &mut Vec<SeedEvents>, e: &SeedEvents, key: &dyn Fn(&SeedEvents) -> i64, cap: usize| {
        if key(e) <= 0 {
            return;
        }
        if v.len() < cap || key(e) > key(v.last().expect("non-empty")) {
            v.push(e.clone());
            v.sort_by_key(|x| -key(x));
            v.truncate(cap);
        }
    };
    type K = fn(&SeedEvents) -> i64;
    let keys: [(K, usize); 7] = [
        (|e| i64::from(e.s_at_block_edge), 3),
        (|e| i64::from(e.max_rej_entry), 4),
        (|e| i64::from(e.q_at_block_end), 3),
        (|e| i64::from(e.q_any), 2),
        (|e| i64::from(e.qm1_any), 2),
        (|e| i64::from(e.max_bytes_s), 4),
        (|e| 100_000 - i64::from(e.min_bytes_s), 2),
    ];
    let parts: Vec<Vec<Vec<SeedEvents>>> = (0..chunks)
        .into_par_iter()
        .map(|c| {
            let mut tops: Vec<Vec<SeedEvents>> = vec![Vec::new(); keys.len()];
            for i in c * per..((c + 1) * per).min(n) {
                let e = events(p, &xi_of(i));
                for (t, (k, cap)) in tops.iter_mut().zip(keys.iter()) {
                    keep(t, &e, k, *cap);
                }
            }
            tops
        })
        .collect();
    let mut out: Vec<SeedEvents> = Vec::new();
    for (ki, (k, cap)) in keys.iter().enumerate() {
        let mut all: Vec<SeedEvents> = parts.iter().flat_map(|t| t[ki].iter().cloned()).collect();
        all.sort_by_key(|x| (-k(x), x.xi.clone()));
        all.truncate(*cap);
        for e in all {
            if !out.contains(&e) {
                out.push(e);
            }
        }
    }
    out
}

// ---------------------------------------------------------------------------------------------
// Genuine signatures whose commitment hash takes SampleInBall through a long run of re-draws.

/// (longest run of consecutive rejected position bytes, rejected bytes in total) of SampleInBall(c~)
pub fn sib_stats(p: &Params, c_tilde: &[u8]) -> (u32, u32) {
    let mut sh = sha3::Shake256::default();
    sh.update(c_tilde);
    let mut rd = sh.finalize_xof();
    let mut buf = [0u8; 8 + 1024];
    rd.read(&mut buf);
    let (mut pos, mut maxrun, mut total) = (8usize, 0u32, 0u32);
    for idx in (256 - p.tau)..=255 {
        let mut run = 0u32;
        loop {
            if pos >= buf.len() {
                return (maxrun, total);
            }
            let j = buf[pos] as usize;
            pos += 1;
            if j > idx {
                run += 1;
                total += 1;
            } else {
                break;
            }
        }
        maxrun = maxrun.max(run);
    }
    (maxrun, total)
}

#[derive(Clone, Debug, Default, Serialize, Deserialize, PartialEq, Eq, Hash)]
pub struct SigEvents {
    pub set: u32,
    /// tuple index: key = Seed32::Uniform(index % 4), msg = BytesSpec { len: 8, constant: None, seed: index }, rnd = Seed32::Uniform(!index)
    pub index: u64,
    pub xi: String,
    pub msg: String,
    pub rnd: String,
    pub sib_max_run: u32,
    pub sib_total_rej: u32,
    pub hint_weight: u32,
    /// rejection-loop iterations of the reference signer
    pub iterations: u32,
}

pub fn sig_tuple_specs(i: u64) -> (super::Seed32, super::BytesSpec, super::Seed32) {
    (super::Seed32::Uniform(i % 4), super::BytesSpec { len: 8, constant: None, seed: i }, super::Seed32::Uniform(!i))
}

pub fn sig_tuple(i: u64) -> ([u8; 32], Vec<u8>, [u8; 32]) {
    let (k, m, r) = sig_tuple_specs(i);
    (k.bytes(), m.bytes(), r.bytes())
}

/// Sign `n` tuples with `sign` (pure mode, empty context); keep the signatures with the most extreme
/// SampleInBall runs / totals and full hint weight.
pub fn sig_search(p: &Params, n: u64, sign: &(dyn Fn(&[u8; 32], &[u8], &[u8; 32]) -> Option<Vec<u8>> + Sync)) -> Vec<SigEvents> {
    let chunks = 2048u64;
    let per = n.div_ceil(chunks);
    let hint_off = p.sig_len - (p.omega as usize + p.k);
    let parts: Vec<Vec<SigEvents>> = (0..chunks)
        .into_par_iter()
        .map(|c| {
            let mut top: Vec<SigEvents> = Vec::new();
            for i in c * per..((c + 1) * per).min(n) {
                let (xi, msg, rnd) = sig_tuple(i);
                let Some(sig) = sign(&xi, &msg, &rnd) else { continue };
                let (run, tot) = sib_stats(p, &sig[..p.ctilde_len()]);
                let hw = u32::from(sig[hint_off + p.omega as usize + p.k - 1]);
                if run >= 6 || tot >= 20 {
                    top.push(SigEvents { set: p.id, index: i, xi: hex::encode(xi), msg: hex::encode(&msg), rnd: hex::encode(rnd), sib_max_run: run, sib_total_rej: tot, hint_weight: hw, iterations: 0 });
                }
            }
            top
        })
        .collect();
    let mut all: Vec<SigEvents> = parts.into_iter().flatten().collect();
    let mut out = Vec::new();
    all.sort_by_key(|e| (std::cmp::Reverse(e.sib_max_run), e.msg.clone()));
    out.extend(all.iter().take(6).cloned());
    all.sort_by_key(|e| (std::cmp::Reverse(e.sib_total_rej), e.msg.clone()));
    for e in all.iter().take(3) {
        if !out.contains(e) {
            out.push(e.clone());
        }
    }
    out
}
