//! fips204-verif: property-based testing and fuzzing harness for integritychain/fips204.
pub mod engine;
pub mod libapi;
pub mod refmodel;
pub mod gen;
pub mod props;
pub mod arb;
pub mod fuzzglue;

/// heap blocks are observed at the moment they are freed (C16, `libapi::observe_boxed`)
#[cfg(feature = "allochook")]
#[global_allocator]
static ALLOC: libapi::WatchAlloc = libapi::WatchAlloc;
