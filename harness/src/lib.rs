//! fips204-verif: property-based testing and fuzzing harness for integritychain/fips204.
pub mod engine;
pub mod libapi;
pub mod refmodel;
pub mod gen;
pub mod props;
pub mod arb;
pub mod fuzzglue;
