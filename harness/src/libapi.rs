//! Uniform, object-safe access to the three parameter-set modules of the library under test,
//! plus the scripted random generator used as the caller's RNG.

use crate::refmodel::{Mode, Params, P44, P65, P87};
use fips204::traits::{KeyGen, SerDes, Signer, Verifier};
use fips204::verif_hooks as hk;
use fips204::Ph;
use rand_core::{CryptoRng, RngCore};
use std::num::NonZeroU32;

pub type P32 = [i32; 256];

// ---------------------------------------------------------------------------------------------
// Scripted RNG

#[derive(Clone, Copy, Debug, PartialEq, Eq, Hash, serde::Serialize, serde::Deserialize)]
pub enum Fault {
    /// deliver normally
    None,
    /// return Err without touching the buffer
    ErrBefore,
    /// write this many bytes of the stream into the buffer, then return Err
    ErrAfter(u8),
}

#[derive(Clone, Debug)]
pub struct ReqLog {
    pub len: usize,
    pub via: &'static str,
    pub ok: bool,
}

/// Byte-stream RNG double: delivers `data` sequentially whatever the request granularity, applies a
/// per-request fault plan, records every request. `try_fill_bytes` is the only fallible method;
/// the infallible ones either serve from the same stream or panic (`infallible_panics`).
pub struct TestRng {
    pub data: Vec<u8>,
    pub pos: usize,
    pub faults: Vec<Fault>,
    pub log: Vec<ReqLog>,
    pub delivered: usize,
    pub infallible_panics: bool,
    /// error code reported on a scripted failure (rand_core::Error code)
    pub err_code: u32,
}

/// error codes a caller's generator may plausibly report: custom range, the internal range used by
/// getrandom (UNSUPPORTED = 0x8000_0000, ...), and a raw OS errno
/// 0 stands for an error WITHOUT a code: `rand_core::Error::new(..)`, the boxed representation that exists
/// whenever rand_core's `std` feature is on somewhere in the build (`Error::code()` returns None for it)
pub const ERR_CODES: [u32; 6] = [rand_core::Error::CUSTOM_START + 7, 0x8000_0000, 0x8000_0001, 0x8000_000B, 5, 0];

impl TestRng {
    pub fn replay(data: &[u8]) -> TestRng {
        TestRng { data: data.to_vec(), pos: 0, faults: vec![], log: vec![], delivered: 0, infallible_panics: false, err_code: ERR_CODES[0] }
    }
    pub fn with_faults(data: &[u8], faults: Vec<Fault>, infallible_panics: bool) -> TestRng {
        TestRng { data: data.to_vec(), pos: 0, faults, log: vec![], delivered: 0, infallible_panics, err_code: ERR_CODES[0] }
    }
    fn err(&self) -> rand_core::Error {
        match NonZeroU32::new(self.err_code) {
            Some(c) => rand_core::Error::from(c),
            None => rand_core::Error::new("scripted RNG failure (boxed error without a code)"),
        }
    }
    fn take(&mut self, out: &mut [u8]) -> bool {
        if self.pos + out.len() > self.data.len() {
            return false;
        }
        out.copy_from_slice(&self.data[self.pos..self.pos + out.len()]);
        self.pos += out.len();
        self.delivered += out.len();
        true
    }
    pub fn requests(&self) -> usize { self.log.len() }
    pub fn used_infallible(&self) -> bool { self.log.iter().any(|r| r.via != "try_fill_bytes") }
}

impl RngCore for TestRng {
    fn next_u32(&mut self) -> u32 {
        assert!(!self.infallible_panics, "TestRng: infallible next_u32 used");
        let mut b = [0u8; 4];
        let ok = self.take(&mut b);
        self.log.push(ReqLog { len: 4, via: "next_u32", ok });
        u32::from_le_bytes(b)
    }
    fn next_u64(&mut self) -> u64 {
        assert!(!self.infallible_panics, "TestRng: infallible next_u64 used");
        let mut b = [0u8; 8];
        let ok = self.take(&mut b);
        self.log.push(ReqLog { len: 8, via: "next_u64", ok });
        u64::from_le_bytes(b)
    }
    fn fill_bytes(&mut self, out: &mut [u8]) {
        assert!(!self.infallible_panics, "TestRng: infallible fill_bytes used");
        let ok = self.take(out);
        self.log.push(ReqLog { len: out.len(), via: "fill_bytes", ok });
    }
    fn try_fill_bytes(&mut self, out: &mut [u8]) -> Result<(), rand_core::Error> {
        let idx = self.log.len();
        let fault = self.faults.get(idx).copied().unwrap_or(Fault::None);
        match fault {
            Fault::None => {
                let ok = self.take(out);
                self.log.push(ReqLog { len: out.len(), via: "try_fill_bytes", ok });
                if ok {
                    Ok(())
                } else {
                    Err(self.err())
                }
            }
            Fault::ErrBefore => {
                self.log.push(ReqLog { len: out.len(), via: "try_fill_bytes", ok: false });
                Err(self.err())
            }
            Fault::ErrAfter(k) => {
                let k = (k as usize).min(out.len());
                let avail = (self.data.len() - self.pos).min(k);
                out[..avail].copy_from_slice(&self.data[self.pos..self.pos + avail]);
                self.pos += avail;
                self.log.push(ReqLog { len: out.len(), via: "try_fill_bytes", ok: false });
                Err(self.err())
            }
        }
    }
}
impl CryptoRng for TestRng {}

// ---------------------------------------------------------------------------------------------
// Object-safe key handles

pub type LibResult<T> = Result<T, &'static str>;

pub trait PkObj: Send {
    fn verify(&self, m: &[u8], sig: &[u8], ctx: &[u8], mode: Mode) -> bool;
    fn internal_verify(&self, m: &[u8], sig: &[u8], ctx: &[u8]) -> bool;
    fn to_bytes(&self) -> Vec<u8>;
    fn clone_box(&self) -> Box<dyn PkObj>;
    fn as_any(&self) -> &dyn std::any::Any;
    /// `Clone::clone_from`: overwrite this object with a copy of `src` (same parameter set)
    fn assign_from(&mut self, src: &dyn PkObj);
}

pub trait SkObj: Send {
    fn sign(&self, rng: &mut TestRng, m: &[u8], ctx: &[u8], mode: Mode) -> LibResult<Vec<u8>>;
    fn sign_os(&self, m: &[u8], ctx: &[u8], mode: Mode) -> LibResult<Vec<u8>>;
    fn internal_sign(&self, m: &[u8], ctx: &[u8], rnd: [u8; 32]) -> LibResult<Vec<u8>>;
    fn public_key(&self) -> Box<dyn PkObj>;
    fn to_bytes(&self) -> Vec<u8>;
    fn clone_box(&self) -> Box<dyn SkObj>;
    fn as_any(&self) -> &dyn std::any::Any;
    /// `Clone::clone_from`: overwrite this object with a copy of `src` (same parameter set)
    fn assign_from(&mut self, src: &dyn SkObj);
}

#[derive(Clone, Debug, serde::Serialize)]
pub struct DropProbe {
    pub size: usize,
    pub nonzero_before: usize,
    pub nonzero_after: usize,
    /// offset of the first surviving non-zero byte
    pub first_survivor: Option<usize>,
    /// smallest number of non-zero bytes in any 32-byte window before the drop is not needed; we
    /// record the number of 256-byte blocks that contained a non-zero byte before the drop
    pub blocks_nonzero_before: usize,
    pub blocks: usize,
    /// bytes of the object that calls through `&self` changed while it sat in the observed storage (interior
    /// mutability: live state of the object, not padding), and how many of those are non-zero after the drop
    pub mutated: usize,
    pub mutated_survivors: usize,
    pub first_mutated_survivor: Option<usize>,
}

#[derive(Clone, Copy, Debug, PartialEq, Eq, Hash, serde::Serialize, serde::Deserialize)]
pub enum Provenance {
    Generated,
    Deserialised,
    Derived,
    Cloned,
}

pub trait Lib: Send + Sync {
    fn p(&self) -> Params;
    fn keygen_from_seed(&self, xi: &[u8; 32]) -> (Box<dyn PkObj>, Box<dyn SkObj>);
    /// through the `KeyGen` trait
    fn keygen_with_rng(&self, rng: &mut TestRng) -> LibResult<(Box<dyn PkObj>, Box<dyn SkObj>)>;
    /// through the module-level function
    fn keygen_with_rng_modfn(&self, rng: &mut TestRng) -> LibResult<(Box<dyn PkObj>, Box<dyn SkObj>)>;
    fn keygen_os(&self) -> LibResult<(Box<dyn PkObj>, Box<dyn SkObj>)>;
    fn pk_from_bytes(&self, b: &[u8]) -> LibResult<Box<dyn PkObj>>;
    fn sk_from_bytes(&self, b: &[u8]) -> LibResult<Box<dyn SkObj>>;
    #[cfg(feature = "dudect")]
    fn dudect_keygen_sign(&self, rng: &mut TestRng, m: &[u8]) -> LibResult<Vec<u8>>;

    /// C16: build a key of the given kind/provenance from `xi`, drop it in place, observe its storage.
    /// `misalign`: place the object at an address that is a multiple of its alignment but not of twice its alignment.
    /// `boxed`: the object is owned by a `Box` that is dropped (observed by the allocator hook) instead.
    /// `pre`: what is done with the object before it is dropped (bit 0: derive the public key from a private key;
    /// bit 1: sign / verify once; bit 2: serialise a clone).
    #[allow(clippy::too_many_arguments)]
    fn drop_probe(&self, private: bool, prov: Provenance, xi: &[u8; 32], structured: Option<&[u8]>, misalign: bool, boxed: bool, pre: u8, exhaust: Option<(&[u8], [u8; 32])>) -> Option<DropProbe>;

    // ---- hooks (parameter-set generic kernels) ----
    fn hk_sig_decode(&self, sig: &[u8]) -> LibResult<(Vec<u8>, Vec<P32>, Vec<P32>)>;
    fn hk_sig_encode(&self, c_tilde: &[u8], z: &[P32], h: &[P32], ctest: bool) -> Vec<u8>;
    fn hk_pk_decode(&self, pk: &[u8]) -> LibResult<(Vec<u8>, Vec<P32>)>;
    fn hk_pk_encode(&self, rho: &[u8], t1: &[P32]) -> Vec<u8>;
    #[allow(clippy::type_complexity)]
    fn hk_sk_decode(&self, sk: &[u8]) -> LibResult<(Vec<u8>, Vec<u8>, Vec<u8>, Vec<P32>, Vec<P32>, Vec<P32>)>;
    #[allow(clippy::too_many_arguments)]
    fn hk_sk_encode(&self, rho: &[u8], key: &[u8], tr: &[u8], s1: &[P32], s2: &[P32], t0: &[P32]) -> Vec<u8>;
    fn hk_w1_encode(&self, w1: &[P32]) -> Vec<u8>;
    fn hk_hint_pack(&self, h: &[P32], ctest: bool) -> Vec<u8>;
    fn hk_hint_unpack(&self, y: &[u8]) -> LibResult<Vec<P32>>;
    fn hk_expand_a(&self, rho: &[u8], ctest: bool) -> Vec<Vec<P32>>;
    fn hk_expand_s(&self, rho: &[u8], ctest: bool) -> (Vec<P32>, Vec<P32>);
    fn hk_expand_mask(&self, rho: &[u8], mu: u16) -> Vec<P32>;
    fn hk_mat_vec_mul(&self, a: &[Vec<P32>], u: &[P32]) -> Vec<P32>;
    fn hk_ntt_l(&self, v: &[P32]) -> Vec<P32>;
    fn hk_inv_ntt_k(&self, v: &[P32]) -> Vec<P32>;
    fn hk_inv_ntt_l(&self, v: &[P32]) -> Vec<P32>;
    fn hk_to_mont_k(&self, v: &[P32]) -> Vec<P32>;
    fn hk_infinity_norm_l(&self, v: &[P32]) -> i32;
    fn hk_infinity_norm_k(&self, v: &[P32]) -> i32;
    fn hk_power2round_k(&self, v: &[P32]) -> (Vec<P32>, Vec<P32>);
    fn hk_add_vector_k(&self, a: &[P32], b: &[P32]) -> Vec<P32>;
}

fn ph(mode: Mode) -> Ph {
    match mode {
        Mode::Sha256 => Ph::SHA256,
        Mode::Sha512 => Ph::SHA512,
        Mode::Shake128 => Ph::SHAKE128,
        Mode::Pure => panic!("no Ph for pure mode"),
    }
}

fn arr<const N: usize>(b: &[u8]) -> [u8; N] {
    <[u8; N]>::try_from(b).unwrap_or_else(|_| panic!("harness: wrong length {} for array of {}", b.len(), N))
}

fn polys<const N: usize>(v: &[P32]) -> [P32; N] {
    assert_eq!(v.len(), N, "harness: wrong number of polynomials");
    core::array::from_fn(|i| v[i])
}

// ---------------------------------------------------------------------------------------------
// Allocator hook: what a heap block holds at the moment it is handed back to the allocator. A wipe made of
// plain stores to memory that is about to be freed is dead code for the optimiser; reading a buffer after
// drop_in_place keeps such stores alive and cannot see the difference, the allocator can.

pub struct WatchAlloc;

const CAP_LEN: usize = 65_536;

thread_local! {
    static WATCH: core::cell::Cell<(usize, usize)> = const { core::cell::Cell::new((0, 0)) };
    static CAPTURED: core::cell::Cell<bool> = const { core::cell::Cell::new(false) };
    static CAP: core::cell::RefCell<Vec<u8>> = const { core::cell::RefCell::new(Vec::new()) };
}

unsafe impl std::alloc::GlobalAlloc for WatchAlloc {
    unsafe fn alloc(&self, layout: std::alloc::Layout) -> *mut u8 { unsafe { std::alloc::System.alloc(layout) } }
    unsafe fn alloc_zeroed(&self, layout: std::alloc::Layout) -> *mut u8 { unsafe { std::alloc::System.alloc_zeroed(layout) } }
    unsafe fn realloc(&self, ptr: *mut u8, layout: std::alloc::Layout, new_size: usize) -> *mut u8 { unsafe { std::alloc::System.realloc(ptr, layout, new_size) } }
    unsafe fn dealloc(&self, ptr: *mut u8, layout: std::alloc::Layout) {
        // (try_with: thread-locals may already be gone while a thread shuts down)
        let _ = WATCH.try_with(|w| {
            let (addr, size) = w.get();
            if addr != 0 && addr == ptr as usize {
                let _ = CAP.try_with(|c| {
                    if let Ok(mut buf) = c.try_borrow_mut() {
                        let n = size.min(layout.size()).min(buf.len());
                        for i in 0..n {
                            buf[i] = unsafe { core::ptr::read_volatile(ptr.add(i)) };
                        }
                        let _ = CAPTURED.try_with(|f| f.set(true));
                    }
                });
                w.set((0, 0));
            }
        });
        unsafe { std::alloc::System.dealloc(ptr, layout) }
    }
}

/// The key lives in a `Box`; the box is dropped; the allocator hook reports what the block held when it was freed.
fn observe_boxed<T>(key: T, ops: impl FnOnce(&T)) -> Option<DropProbe> {
    let size = core::mem::size_of::<T>();
    if size > CAP_LEN {
        return None;
    }
    CAP.with(|c| {
        let mut b = c.borrow_mut();
        if b.len() < CAP_LEN {
            b.resize(CAP_LEN, 0xEE);
        }
        b[..size].iter_mut().for_each(|x| *x = 0xEE);
    });
    CAPTURED.with(|f| f.set(false));
    let boxed = Box::new(key);
    let addr = &*boxed as *const T as usize;
    let image = || -> Vec<u8> { (0..size).map(|i| unsafe { core::ptr::read_volatile((addr + i) as *const u8) }).collect() };
    let placed = image();
    ops(&*boxed);
    let before = image();
    WATCH.with(|w| w.set((addr, size)));
    // a second allocation keeps the block away from the top of the heap (it is not merged into the top chunk and
    // trimmed when freed)
    let guard = std::hint::black_box(Box::new([0x5Au8; 96]));
    // (allocated before the drop: nothing may be allocated between the drop and the read-back)
    let mut freed: Vec<u8> = vec![0u8; size];
    drop(boxed);
    WATCH.with(|w| w.set((0, 0)));
    // (a) what the allocator saw; (b) what the freed block holds right after the drop, read behind the compiler's
    // back through an integer address (the way a memory-disclosure bug or a core dump would see it). The first
    // 32 bytes of a freed block belong to the allocator's free-list links and are not judged in (b).
    for (i, f) in freed.iter_mut().enumerate().skip(32) {
        *f = unsafe { core::ptr::read_volatile((std::hint::black_box(addr) + i) as *const u8) };
    }
    drop(guard);
    let hooked = cfg!(feature = "allochook");
    if hooked && !CAPTURED.with(core::cell::Cell::get) {
        return None;
    }
    let mut after: Vec<u8> = if hooked { CAP.with(|c| c.borrow()[..size].to_vec()) } else { vec![0u8; size] };
    for (a, f) in after.iter_mut().zip(&freed) {
        *a |= *f;
    }
    let blocks = size.div_ceil(256);
    Some(DropProbe {
        size,
        nonzero_before: before.iter().filter(|&&b| b != 0).count(),
        nonzero_after: after.iter().filter(|&&b| b != 0).count(),
        first_survivor: after.iter().position(|&b| b != 0),
        blocks_nonzero_before: before.chunks(256).filter(|c| c.iter().any(|&b| b != 0)).count(),
        blocks,
        mutated: mutated(&placed, &before, &before).0,
        mutated_survivors: mutated(&placed, &before, &after).1,
        first_mutated_survivor: mutated(&placed, &before, &after).2,
    })
}

/// (bytes changed between the two images, how many of those are non-zero in `after`, offset of the first such byte)
fn mutated(placed: &[u8], before: &[u8], after: &[u8]) -> (usize, usize, Option<usize>) {
    let changed = |i: usize| placed[i] != before[i];
    let n = (0..placed.len()).filter(|&i| changed(i)).count();
    let surv: Vec<usize> = (0..placed.len()).filter(|&i| changed(i) && after[i] != 0).collect();
    (n, surv.len(), surv.first().copied())
}

/// Move `key` into storage owned by the harness at a chosen alignment, drop it in place, read the storage.
fn observe<T>(key: T, misalign: bool, ops: impl FnOnce(&T)) -> DropProbe {
    let size = core::mem::size_of::<T>();
    let align = core::mem::align_of::<T>().max(8);
    assert!(align <= 64, "harness: unexpected alignment");
    let mut store: Vec<u64> = vec![0u64; size / 8 + 32];
    let base = store.as_mut_ptr() as usize;
    let mut addr = (base + 127) & !127; // a multiple of 128 ...
    if misalign {
        addr += align; // ... or an odd multiple of the type's own alignment
    }
    assert!(addr + size <= base + store.len() * 8);
    let tptr = addr as *mut T;
    let ptr = tptr.cast::<u8>();
    unsafe { tptr.write(key) };
    let read = |p: *mut u8| -> Vec<u8> { (0..size).map(|i| unsafe { core::ptr::read_volatile(p.add(i)) }).collect() };
    let placed = read(ptr);
    ops(unsafe { &*tptr });
    let before = read(ptr);
    unsafe { core::ptr::drop_in_place(tptr) };
    let after = read(ptr);
    drop(store);
    let blocks = size.div_ceil(256);
    DropProbe {
        size,
        nonzero_before: before.iter().filter(|&&b| b != 0).count(),
        nonzero_after: after.iter().filter(|&&b| b != 0).count(),
        first_survivor: after.iter().position(|&b| b != 0),
        blocks_nonzero_before: before.chunks(256).filter(|c| c.iter().any(|&b| b != 0)).count(),
        blocks,
        mutated: mutated(&placed, &before, &before).0,
        mutated_survivors: mutated(&placed, &before, &after).1,
        first_mutated_survivor: mutated(&placed, &before, &after).2,
    }
}

macro_rules! lib_impl {
    ($name:ident, $m:ident, $params:expr, $K:expr, $L:expr, $LD4:expr, $eta:expr, $gamma1:expr, $gamma2:expr, $omega:expr) => {
        pub struct $name;

        mod $m {
            use super::*;
            pub use fips204::$m::*;
            pub struct Pk(pub PublicKey);
            pub struct Sk(pub PrivateKey);

            impl PkObj for Pk {
                fn verify(&self, m: &[u8], sig: &[u8], ctx: &[u8], mode: Mode) -> bool {
                    let s: [u8; SIG_LEN] = arr(sig);
                    match mode {
                        Mode::Pure => self.0.verify(m, &s, ctx),
                        _ => self.0.hash_verify(m, &s, ctx, &ph(mode)),
                    }
                }
                #[allow(deprecated)]
                fn internal_verify(&self, m: &[u8], sig: &[u8], ctx: &[u8]) -> bool {
                    let s: [u8; SIG_LEN] = arr(sig);
                    _internal_verify(&self.0, m, &s, ctx)
                }
                fn to_bytes(&self) -> Vec<u8> { self.0.clone().into_bytes().to_vec() }
                fn clone_box(&self) -> Box<dyn PkObj> { Box::new(Pk(self.0.clone())) }
                fn as_any(&self) -> &dyn std::any::Any { self }
                fn assign_from(&mut self, src: &dyn PkObj) {
                    let s = src.as_any().downcast_ref::<Pk>().expect("harness: assign_from across parameter sets");
                    self.0.clone_from(&s.0);
                }
            }

            impl SkObj for Sk {
                fn sign(&self, rng: &mut TestRng, m: &[u8], ctx: &[u8], mode: Mode) -> LibResult<Vec<u8>> {
                    match mode {
                        Mode::Pure => self.0.try_sign_with_rng(rng, m, ctx).map(|s| s.to_vec()),
                        _ => self.0.try_hash_sign_with_rng(rng, m, ctx, &ph(mode)).map(|s| s.to_vec()),
                    }
                }
                fn sign_os(&self, m: &[u8], ctx: &[u8], mode: Mode) -> LibResult<Vec<u8>> {
                    match mode {
                        Mode::Pure => self.0.try_sign(m, ctx).map(|s| s.to_vec()),
                        _ => self.0.try_hash_sign(m, ctx, &ph(mode)).map(|s| s.to_vec()),
                    }
                }
                #[allow(deprecated)]
                fn internal_sign(&self, m: &[u8], ctx: &[u8], rnd: [u8; 32]) -> LibResult<Vec<u8>> {
                    _internal_sign(&self.0, m, ctx, rnd).map(|s| s.to_vec())
                }
                fn public_key(&self) -> Box<dyn PkObj> { Box::new(Pk(self.0.get_public_key())) }
                fn to_bytes(&self) -> Vec<u8> { self.0.clone().into_bytes().to_vec() }
                fn clone_box(&self) -> Box<dyn SkObj> { Box::new(Sk(self.0.clone())) }
                fn as_any(&self) -> &dyn std::any::Any { self }
                fn assign_from(&mut self, src: &dyn SkObj) {
                    let s = src.as_any().downcast_ref::<Sk>().expect("harness: assign_from across parameter sets");
                    self.0.clone_from(&s.0);
                }
            }
        }

        impl Lib for $name {
            fn p(&self) -> Params { $params }
            fn keygen_from_seed(&self, xi: &[u8; 32]) -> (Box<dyn PkObj>, Box<dyn SkObj>) {
                let (pk, sk) = $m::KG::keygen_from_seed(xi);
                (Box::new($m::Pk(pk)), Box::new($m::Sk(sk)))
            }
            fn keygen_with_rng(&self, rng: &mut TestRng) -> LibResult<(Box<dyn PkObj>, Box<dyn SkObj>)> {
                let (pk, sk) = $m::KG::try_keygen_with_rng(rng)?;
                Ok((Box::new($m::Pk(pk)), Box::new($m::Sk(sk))))
            }
            fn keygen_with_rng_modfn(&self, rng: &mut TestRng) -> LibResult<(Box<dyn PkObj>, Box<dyn SkObj>)> {
                let (pk, sk) = $m::try_keygen_with_rng(rng)?;
                Ok((Box::new($m::Pk(pk)), Box::new($m::Sk(sk))))
            }
            fn keygen_os(&self) -> LibResult<(Box<dyn PkObj>, Box<dyn SkObj>)> {
                let (pk, sk) = $m::try_keygen()?;
                Ok((Box::new($m::Pk(pk)), Box::new($m::Sk(sk))))
            }
            fn pk_from_bytes(&self, b: &[u8]) -> LibResult<Box<dyn PkObj>> {
                let pk = $m::PublicKey::try_from_bytes(arr(b))?;
                Ok(Box::new($m::Pk(pk)))
            }
            fn sk_from_bytes(&self, b: &[u8]) -> LibResult<Box<dyn SkObj>> {
                let sk = $m::PrivateKey::try_from_bytes(arr(b))?;
                Ok(Box::new($m::Sk(sk)))
            }
            #[cfg(feature = "dudect")]
            #[allow(deprecated)]
            fn dudect_keygen_sign(&self, rng: &mut TestRng, m: &[u8]) -> LibResult<Vec<u8>> {
                $m::dudect_keygen_sign_with_rng(rng, m).map(|s| s.to_vec())
            }

            fn drop_probe(&self, private: bool, prov: Provenance, xi: &[u8; 32], structured: Option<&[u8]>, misalign: bool, boxed: bool, pre: u8, exhaust: Option<(&[u8], [u8; 32])>) -> Option<DropProbe> {
                let (pk, sk) = $m::KG::keygen_from_seed(xi);
                if private {
                    let key: $m::PrivateKey = match (prov, structured) {
                        (Provenance::Deserialised, Some(b)) => $m::PrivateKey::try_from_bytes(arr(b)).ok()?,
                        (Provenance::Generated, _) => sk,
                        (Provenance::Deserialised, None) => $m::PrivateKey::try_from_bytes(sk.into_bytes()).ok()?,
                        (Provenance::Cloned, _) => sk.clone(),
                        (Provenance::Derived, _) => return None,
                    };
                    // the object is used where it is observed, so that bytes changed through `&self` are seen as such
                    let ops = |key: &$m::PrivateKey| {
                        if pre & 1 != 0 {
                            let _ = key.get_public_key();
                        }
                        if pre & 2 != 0 {
                            let mut rng = TestRng::replay(&[7u8; 32]);
                            let _ = key.try_sign_with_rng(&mut rng, b"used before drop", &[]);
                            let mut rng = TestRng::replay(&[9u8; 32]);
                            let _ = key.try_hash_sign_with_rng(&mut rng, b"used before drop", &[5], &Ph::SHAKE128);
                        }
                        if pre & 4 != 0 {
                            let _ = key.clone().into_bytes();
                        }
                        if let Some((m, rnd)) = exhaust {
                            let mut rng = TestRng::replay(&rnd);
                            let _ = key.try_sign_with_rng(&mut rng, m, &[1, 2, 3]);
                        }
                    };
                    if boxed { observe_boxed(key, ops) } else { Some(observe(key, misalign, ops)) }
                } else {
                    let key: $m::PublicKey = match (prov, structured) {
                        (Provenance::Deserialised, Some(b)) => $m::PublicKey::try_from_bytes(arr(b)).ok()?,
                        (Provenance::Generated, _) => pk,
                        (Provenance::Deserialised, None) => $m::PublicKey::try_from_bytes(pk.into_bytes()).ok()?,
                        (Provenance::Cloned, _) => pk.clone(),
                        (Provenance::Derived, _) => sk.get_public_key(),
                    };
                    let ops = |key: &$m::PublicKey| {
                        if pre & 2 != 0 {
                            // verification calls that end at each step of Algorithm 8: a byte string that does not
                            // decode, a signature that is accepted (when the key is the signer's), and well-formed
                            // signatures rejected for c_tilde, for a response out of range (+gamma1 / -(gamma1-1)),
                            // and for a malformed hint
                            let _ = key.verify(b"used before drop", &[0x11u8; $m::SIG_LEN], &[]);
                            let mut rng = TestRng::replay(&[7u8; 32]);
                            if let Ok(sig) = sk.try_sign_with_rng(&mut rng, b"used before drop", &[]) {
                                let _ = key.verify(b"used before drop", &sig, &[]);
                                let mut s = sig;
                                s[0] ^= 1;
                                let _ = key.verify(b"used before drop", &s, &[]);
                                for fill in [0x00u8, 0xFF] {
                                    let mut s = sig;
                                    s[$LD4 + 40..$LD4 + 48].iter_mut().for_each(|b| *b = fill);
                                    let _ = key.verify(b"used before drop", &s, &[]);
                                    let _ = key.hash_verify(b"used before drop", &s, &[], &Ph::SHA512);
                                }
                                let mut s = sig;
                                s[$m::SIG_LEN - 1] = 0xFF;
                                let _ = key.verify(b"used before drop", &s, &[]);
                            }
                        }
                        if pre & 4 != 0 {
                            let _ = key.clone().into_bytes();
                        }
                    };
                    if boxed { observe_boxed(key, ops) } else { Some(observe(key, misalign, ops)) }
                }
            }

            fn hk_sig_decode(&self, sig: &[u8]) -> LibResult<(Vec<u8>, Vec<P32>, Vec<P32>)> {
                let s: [u8; $m::SIG_LEN] = arr(sig);
                let (c, z, h) = hk::sig_decode::<$K, $L, $LD4, { $m::SIG_LEN }>($gamma1, $omega, &s)?;
                let h = h.ok_or("sig_decode returned h = None")?;
                Ok((c.to_vec(), z.to_vec(), h.to_vec()))
            }
            fn hk_sig_encode(&self, c_tilde: &[u8], z: &[P32], h: &[P32], ctest: bool) -> Vec<u8> {
                let c: [u8; $LD4] = arr(c_tilde);
                if ctest {
                    hk::sig_encode::<true, $K, $L, $LD4, { $m::SIG_LEN }>($gamma1, $omega, &c, &polys(z), &polys(h)).to_vec()
                } else {
                    hk::sig_encode::<false, $K, $L, $LD4, { $m::SIG_LEN }>($gamma1, $omega, &c, &polys(z), &polys(h)).to_vec()
                }
            }
            fn hk_pk_decode(&self, pk: &[u8]) -> LibResult<(Vec<u8>, Vec<P32>)> {
                let b: [u8; $m::PK_LEN] = arr(pk);
                let (rho, t1) = hk::pk_decode::<$K, { $m::PK_LEN }>(&b)?;
                Ok((rho.to_vec(), t1.to_vec()))
            }
            fn hk_pk_encode(&self, rho: &[u8], t1: &[P32]) -> Vec<u8> {
                hk::pk_encode::<$K, { $m::PK_LEN }>(&arr(rho), &polys(t1)).to_vec()
            }
            fn hk_sk_decode(&self, sk: &[u8]) -> LibResult<(Vec<u8>, Vec<u8>, Vec<u8>, Vec<P32>, Vec<P32>, Vec<P32>)> {
                let b: [u8; $m::SK_LEN] = arr(sk);
                let (rho, k, tr, s1, s2, t0) = hk::sk_decode::<$K, $L, { $m::SK_LEN }>($eta, &b)?;
                Ok((rho.to_vec(), k.to_vec(), tr.to_vec(), s1.to_vec(), s2.to_vec(), t0.to_vec()))
            }
            fn hk_sk_encode(&self, rho: &[u8], key: &[u8], tr: &[u8], s1: &[P32], s2: &[P32], t0: &[P32]) -> Vec<u8> {
                hk::sk_encode::<$K, $L, { $m::SK_LEN }>($eta, &arr(rho), &arr(key), &arr(tr), &polys(s1), &polys(s2), &polys(t0)).to_vec()
            }
            fn hk_w1_encode(&self, w1: &[P32]) -> Vec<u8> {
                let bits = hk::bit_length((8_380_417 - 1) / (2 * $gamma2) - 1);
                let mut out = vec![0u8; 32 * $K * bits];
                hk::w1_encode::<$K>($gamma2, &polys(w1), &mut out);
                out
            }
            fn hk_hint_pack(&self, h: &[P32], ctest: bool) -> Vec<u8> {
                let mut y = vec![0u8; $omega as usize + $K];
                if ctest {
                    hk::hint_bit_pack::<true, $K>($omega, &polys(h), &mut y);
                } else {
                    hk::hint_bit_pack::<false, $K>($omega, &polys(h), &mut y);
                }
                y
            }
            fn hk_hint_unpack(&self, y: &[u8]) -> LibResult<Vec<P32>> {
                hk::hint_bit_unpack::<$K>($omega, y).map(|h| h.to_vec())
            }
            fn hk_expand_a(&self, rho: &[u8], ctest: bool) -> Vec<Vec<P32>> {
                let a = if ctest { hk::expand_a::<true, $K, $L>(&arr(rho)) } else { hk::expand_a::<false, $K, $L>(&arr(rho)) };
                a.iter().map(|r| r.to_vec()).collect()
            }
            fn hk_expand_s(&self, rho: &[u8], ctest: bool) -> (Vec<P32>, Vec<P32>) {
                let (s1, s2) = if ctest { hk::expand_s::<true, $K, $L>($eta, &arr(rho)) } else { hk::expand_s::<false, $K, $L>($eta, &arr(rho)) };
                (s1.to_vec(), s2.to_vec())
            }
            fn hk_expand_mask(&self, rho: &[u8], mu: u16) -> Vec<P32> {
                hk::expand_mask::<$L>($gamma1, &arr(rho), mu).to_vec()
            }
            fn hk_mat_vec_mul(&self, a: &[Vec<P32>], u: &[P32]) -> Vec<P32> {
                assert_eq!(a.len(), $K);
                let am: [[P32; $L]; $K] = core::array::from_fn(|i| polys(&a[i]));
                hk::mat_vec_mul::<$K, $L>(&am, &polys(u)).to_vec()
            }
            fn hk_ntt_l(&self, v: &[P32]) -> Vec<P32> { hk::ntt::<$L>(&polys(v)).to_vec() }
            fn hk_inv_ntt_k(&self, v: &[P32]) -> Vec<P32> { hk::inv_ntt::<$K>(&polys(v)).to_vec() }
            fn hk_inv_ntt_l(&self, v: &[P32]) -> Vec<P32> { hk::inv_ntt::<$L>(&polys(v)).to_vec() }
            fn hk_to_mont_k(&self, v: &[P32]) -> Vec<P32> { hk::to_mont::<$K>(&polys(v)).to_vec() }
            fn hk_infinity_norm_l(&self, v: &[P32]) -> i32 { hk::infinity_norm::<$L>(&polys(v)) }
            fn hk_infinity_norm_k(&self, v: &[P32]) -> i32 { hk::infinity_norm::<$K>(&polys(v)) }
            fn hk_power2round_k(&self, v: &[P32]) -> (Vec<P32>, Vec<P32>) {
                let (a, b) = hk::power2round::<$K>(&polys(v));
                (a.to_vec(), b.to_vec())
            }
            fn hk_add_vector_k(&self, a: &[P32], b: &[P32]) -> Vec<P32> {
                hk::add_vector_ntt::<$K>(&polys(a), &polys(b)).to_vec()
            }
        }
    };
}

lib_impl!(Lib44, ml_dsa_44, P44, 4, 4, 32, 2, 1 << 17, (8_380_417 - 1) / 88, 80);
lib_impl!(Lib65, ml_dsa_65, P65, 6, 5, 48, 4, 1 << 19, (8_380_417 - 1) / 32, 55);
lib_impl!(Lib87, ml_dsa_87, P87, 8, 7, 64, 2, 1 << 19, (8_380_417 - 1) / 32, 75);

pub static LIB44: Lib44 = Lib44;
pub static LIB65: Lib65 = Lib65;
pub static LIB87: Lib87 = Lib87;

pub fn libs() -> [&'static dyn Lib; 3] { [&LIB44, &LIB65, &LIB87] }

pub fn lib(id: u32) -> &'static dyn Lib {
    match id {
        44 => &LIB44,
        65 => &LIB65,
        87 => &LIB87,
        _ => panic!("unknown set {id}"),
    }
}

pub fn to_i32(p: &crate::refmodel::Poly) -> P32 { core::array::from_fn(|i| p[i] as i32) }
pub fn to_i64(p: &P32) -> crate::refmodel::Poly { core::array::from_fn(|i| i64::from(p[i])) }
pub fn vec_i32(v: &[crate::refmodel::Poly]) -> Vec<P32> { v.iter().map(to_i32).collect() }
pub fn vec_i64(v: &[P32]) -> Vec<crate::refmodel::Poly> { v.iter().map(to_i64).collect() }
