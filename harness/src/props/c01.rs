//! C01 — honest signatures always verify (all modes, sets, key provenances).

use super::*;
use crate::engine::{run_generated, run_sweep, Stats};
use crate::fail;
use crate::gen::{self, BytesSpec, Seed32};
use crate::libapi::libs;
use crate::refmodel as rf;
use proptest::prelude::*;
use serde::{Deserialize, Serialize};
use serde_json::json;

#[derive(Clone, Debug, Hash, Serialize, Deserialize)]
pub struct Case {
    pub set: u8,
    pub key: Seed32,
    pub msg: BytesSpec,
    pub ctx: BytesSpec,
    pub mode: u8,
    pub rnd: Seed32,
    /// 0 generated, 1 serialise->deserialise
    pub sk_prov: u8,
    /// 0 generated, 1 serialise->deserialise, 2 derived from generated sk, 3 derived from round-tripped sk,
    /// 4 `clone()` of the generated key, 5 another key's object overwritten with `clone_from(&generated)`
    pub pk_prov: u8,
    /// classify with the reference signer (costs a reference signature)
    pub classify: bool,
}

fn strategy(max_msg: u32) -> impl Strategy<Value = Case> {
    (0u8..3, gen::seed32(), gen::message(max_msg), gen::context(), gen::mode(), gen::seed32(), 0u8..2, 0u8..6).prop_map(
        |(set, key, msg, ctx, mode, rnd, sk_prov, pk_prov)| Case { set, key, msg, ctx, mode, rnd, sk_prov, pk_prov, classify: true },
    )
}

pub fn check(c: &Case, st: &mut Stats) -> CheckResult {
    let lib = libs()[c.set as usize % 3];
    let p = lib.p();
    let m = c.msg.bytes();
    let ctx = c.ctx.bytes();
    let mode = gen::mode_of(c.mode);
    let rnd = c.rnd.bytes();
    let xi = c.key.bytes();
    let (pk_gen, sk_gen) = g("keygen_from_seed", || lib.keygen_from_seed(&xi))?;
    let sk_rt = match g_sk(lib, &g("sk.into_bytes", || sk_gen.to_bytes())?)? {
        Ok(k) => k,
        Err(e) => fail!("sk_roundtrip:err", "set {}: generated private key rejected by try_from_bytes: {e}", p.id),
    };
    let sk = if c.sk_prov % 2 == 0 { &sk_gen } else { &sk_rt };
    let mut rng = TestRng::replay(&rnd);
    let sig = match g_sign(&**sk, &mut rng, &m, &ctx, mode) {
        Ok(Ok(s)) => s,
        Ok(Err(e)) => fail!("sign:err", "set {} mode {}: signing failed with ctx of {} bytes: {e}", p.id, mode.tag(), ctx.len()),
        Err(pi) => return Err(Fail::panic("sign", &pi)),
    };
    let pk: Box<dyn PkObj> = match c.pk_prov % 6 {
        0 => pk_gen,
        1 => g_pk(lib, &g("pk.into_bytes", || pk_gen.to_bytes())?)?,
        2 => g("get_public_key", || sk_gen.public_key())?,
        3 => g("get_public_key", || sk_rt.public_key())?,
        4 => g("pk.clone", || pk_gen.clone_box())?,
        _ => {
            let mut other_xi = xi;
            other_xi[0] ^= 0xA5;
            let (mut other, _) = g("keygen_from_seed", || lib.keygen_from_seed(&other_xi))?;
            g("pk.clone_from", || other.assign_from(&*pk_gen))?;
            other
        }
    };
    let ok = g_verify(&*pk, &m, &sig, &ctx, mode)?;
    st.eval();
    let mut nontrivial = ctx.len() >= 254 || m.is_empty() || m.len() > 136 || c.sk_prov % 2 != 0 || c.pk_prov % 6 != 0 || mode != Mode::Pure;
    st.class(&format!("mode={}", mode.tag()));
    st.class(&format!("sk_prov={}", c.sk_prov % 2));
    st.class(&format!("pk_prov={}", c.pk_prov % 6));
    if ctx.len() >= 254 {
        st.class("ctx>=254");
    }
    if m.is_empty() {
        st.class("msg=empty");
    }
    if m.len() > 136 {
        st.class("msg>1block");
    }
    if c.classify {
        // classification only: what did the signing loop go through (reference diagnostics)
        let (_, sk_bytes) = rf::keygen_internal(&p, &xi);
        if let Ok((_, d)) = rf::sign(&p, &sk_bytes, &m, &ctx, mode, &rnd, 100_000) {
            if d.iterations >= 10 {
                st.class("rare:iterations>=10");
                nontrivial = true;
            }
            if d.hint_weight + 1 >= p.omega {
                st.class("rare:hint_weight>=omega-1");
                nontrivial = true;
            }
            if d.rejects.iter().any(|r| matches!(r, rf::Reject::HintWeight | rf::Reject::Ct0Norm)) {
                st.class("rare:rejected_on_hint_or_ct0");
                nontrivial = true;
            }
            st.maximum(&format!("iterations_{}", p.id), i64::from(d.iterations));
            st.maximum(&format!("hint_weight_{}", p.id), d.hint_weight as i64);
        }
    }
    if nontrivial {
        st.nontrivial(c);
    }
    st.sample(&format!("set{}:{}", p.id, mode.tag()), || {
        json!({"set": p.id, "seed": hex::encode(xi), "msg_len": m.len(), "ctx_len": ctx.len(), "mode": mode.tag(),
               "rnd": hex::encode(rnd), "sk_prov": c.sk_prov % 2, "pk_prov": c.pk_prov % 6, "verified": ok})
    });
    if !ok {
        fail!(
            format!("verify_false:set{}:{}", p.id, mode.tag()),
            "set {} mode {}: honest signature does not verify (sk_prov {}, pk_prov {}, |M|={}, |ctx|={})",
            p.id, mode.tag(), c.sk_prov % 2, c.pk_prov % 6, m.len(), ctx.len()
        );
    }
    Ok(())
}

/// Screened rare events: run the reference signer over a pool, keep the triples exhibiting a rare
/// event, run the library on exactly those.
fn screened(ctx: &Ctx, rep: &mut Report) {
    let pool = u64::from(ctx.n(6000, 120_000));
    let seed = ctx.seed;
    for (si, lib) in libs().into_iter().enumerate() {
        let p = lib.p();
        let sub = format!("screened_{}", p.id);
        run_sweep(
            rep,
            &sub,
            pool,
            false,
            |i, st| {
                let c = screened_case(seed, si as u8, i);
                let (_, sk) = rf::keygen_internal(&p, &c.key.bytes());
                let d = match rf::sign(&p, &sk, &c.msg.bytes(), &c.ctx.bytes(), gen::mode_of(c.mode), &c.rnd.bytes(), 100_000) {
                    Ok((_, d)) => d,
                    Err(_) => return Ok(()),
                };
                st.class("pool");
                let rare = d.iterations >= 10
                    || d.hint_weight + 1 >= p.omega
                    || d.rejects.iter().any(|r| matches!(r, rf::Reject::HintWeight | rf::Reject::Ct0Norm))
                    || d.max_z == p.gamma1 - p.beta - 1
                    || d.max_r0 == p.gamma2 - p.beta - 1;
                if !rare {
                    // not a rare event: still run the plain round trip once (the reference signature is paid for)
                    return check(&c, st);
                }
                if d.max_z == p.gamma1 - p.beta - 1 {
                    st.class("rare:max_z=bound-1");
                }
                if d.max_r0 == p.gamma2 - p.beta - 1 {
                    st.class("rare:max_r0=bound-1");
                }
                if d.hint_weight == p.omega {
                    st.class("rare:hint_weight=omega");
                }
                let mut c = c;
                c.classify = true;
                // all provenances on the rare triple
                for prov in 0..6u8 {
                    c.pk_prov = prov;
                    c.sk_prov = prov & 1;
                    check(&c, st)?;
                }
                Ok(())
            },
            |i| serde_json::to_value(screened_case(seed, si as u8, i)).expect("ser"),
        );
    }
}

fn screened_case(seed: u64, set: u8, i: u64) -> Case {
    let s = crate::engine::hash_of(&(seed, "c01-screen", set, i));
    Case {
        set,
        key: Seed32::Uniform(s % 16), // few keys, many messages: keygen is amortised by the cache-free reference anyway
        msg: BytesSpec { len: 1 + (s % 64) as u32, constant: None, seed: s },
        ctx: BytesSpec { len: ((s >> 8) % 3) as u32, constant: None, seed: s ^ 1 },
        mode: (i % 4) as u8,
        rnd: Seed32::Uniform(s ^ 2),
        sk_prov: 0,
        pk_prov: 0,
        classify: false,
    }
}

/// EVERY message length 0..=N (contiguous, like C07's context lengths): a signer or verifier that absorbs the
/// message in pieces fails at isolated lengths (one value per piece size and header length), which no sample of
/// "interesting" lengths is guaranteed to contain. One key per set; sign + verify only (no reference).
fn every_message_length(ctx: &Ctx, rep: &mut Report) {
    let n = u64::from(ctx.n(140_000, 300_000)) + 1;
    let sets: &[usize] = if ctx.quick() { &[0] } else { &[0, 1, 2] };
    let data = gen::prg_bytes(ctx.seed, "c01-lens", n as usize + 16);
    for &si in sets {
        let lib = libs()[si];
        let p = lib.p();
        let sub = format!("every_message_length_{}", p.id);
        run_sweep(
            rep,
            &sub,
            n,
            true,
            |len, st| {
                let m = &data[(len % 7) as usize..(len % 7 + len) as usize];
                let cx = &data[..(len % 5) as usize];
                let mode = if len % 8 == 0 { gen::mode_of(1 + ((len / 8) % 3) as u8) } else { Mode::Pure };
                let mut rng = TestRng::replay(&[(len % 251) as u8; 32]);
                st.eval();
                st.nontrivial_enumerated += 1;
                // (a key pair per case: key objects are not assumed to be shareable between threads)
                let (pk, sk) = g("keygen_from_seed", || lib.keygen_from_seed(&[0x17; 32]))?;
                let sig = match g_sign(&*sk, &mut rng, m, cx, mode) {
                    Ok(Ok(s)) => s,
                    Ok(Err(e)) => fail!(format!("sign:err:len_sweep:set{}", p.id), "set {} {}: signing a message of {len} bytes failed: {e}", p.id, mode.tag()),
                    Err(pi) => return Err(Fail::panic("sign", &pi)),
                };
                if !g_verify(&*pk, m, &sig, cx, mode)? {
                    fail!(format!("verify_false:len_sweep:set{}:{}", p.id, mode.tag()), "set {} {}: honest signature over a message of exactly {len} bytes (|ctx| = {}) does not verify", p.id, mode.tag(), cx.len());
                }
                Ok(())
            },
            |len| json!({"set": p.id, "msg_len": len, "ctx_len": len % 5}),
        );
    }
}

pub fn run(ctx: &Ctx, rep: &mut Report) {
    rep.assume("the verdict oracle is the library's own verifier on the library's own signature (the property itself); the reference signer is used only to classify cases (loop iterations, hint weight)");
    rep.assume(ASSUME_REF);
    let max_msg = if ctx.quick() { 4096 } else { 262_144 };
    run_generated(ctx, rep, "generated", ctx.n(8000, 120_000), || strategy(max_msg), check);
    screened(ctx, rep);
    // genuine signatures with extreme SampleInBall runs (corpus/sig_extremes), every provenance
    let mut ext: Vec<Case> = Vec::new();
    for e in gen::sig_corpus() {
        let (key, msg, rnd) = gen::xofsearch::sig_tuple_specs(e.index);
        for prov in 0..6u8 {
            ext.push(Case { set: match e.set { 44 => 0, 65 => 1, _ => 2 }, key: key.clone(), msg: msg.clone(), ctx: BytesSpec::empty(), mode: 0, rnd: rnd.clone(), sk_prov: prov & 1, pk_prov: prov, classify: false });
        }
        rep.stats("extreme_signatures").maximum(&format!("max_consecutive_rejections_set{}", e.set), i64::from(e.sib_max_run));
        rep.stats("extreme_signatures").maximum(&format!("max_loop_iterations_set{}", e.set), i64::from(e.iterations));
    }
    crate::engine::run_list(rep, "extreme_signatures", &ext, check);
    // very long messages (lengths around 2^16, 2^17, 2^20, 2^24), every mode and provenance pair
    let mut long: Vec<Case> = Vec::new();
    for (li, len) in crate::props::c03::LONG_MSG_LENS.iter().enumerate() {
        for mode in 0..4u8 {
            if ctx.quick() && *len > (1 << 20) + 168 && mode % 2 == 0 {
                continue;
            }
            let s = crate::engine::hash_of(&(ctx.seed, "c01-long", len, mode));
            long.push(Case { set: ((li + mode as usize + 1) % 3) as u8, key: Seed32::Uniform(s % 3), msg: BytesSpec { len: *len, constant: None, seed: s }, ctx: BytesSpec { len: (s % 256) as u32, constant: None, seed: s ^ 1 }, mode, rnd: Seed32::Uniform(s ^ 2), sk_prov: (s >> 9) as u8 & 1, pk_prov: (s >> 10) as u8 & 3, classify: false });
        }
    }
    crate::engine::run_list(rep, "long_messages", &long, check);
    every_message_length(ctx, rep);
    crate::props::c03::cold_start(ctx, rep, &["own signature does not verify", "panic"]);
}

pub fn replay(_ctx: &Ctx, sub: &str, case: &Value) -> Option<CheckResult> {
    if sub == "generated" || sub.starts_with("screened_") || sub == "extreme_signatures" || sub == "long_messages" {
        let c: Case = from_case(case);
        let mut st = Stats::default();
        return Some(check(&c, &mut st));
    }
    None
}
