//! C01 — honest signatures always verify (all modes, sets, key provenances).

use super::*;
use crate::engine::{run_generated, run_sweep, Stats};
use crate::fail;
use crate::gen::{self, BytesSpec, Seed32};
use crate::libapi::libs;
use crate::refmodel as rf;
use proptest::prelude::*;
use serde::{Deserialize, Serialize};
use serde_json::json;

#[derive(Clone, Debug, Hash, Serialize, Deserialize)]
pub struct Case {
    pub set: u8,
    pub key: Seed32,
    pub msg: BytesSpec,
    pub ctx: BytesSpec,
    pub mode: u8,
    pub rnd: Seed32,
    /// 0 generated, 1 serialise->deserialise
    pub sk_prov: u8,
    /// 0 generated, 1 serialise->deserialise, 2 derived from generated sk, 3 derived from round-tripped sk
    pub pk_prov: u8,
    /// classify with the reference signer (costs a reference signature)
    pub classify: bool,
}

fn strategy(max_msg: u32) -> impl Strategy<Value = Case> {
    (0u8..3, gen::seed32(), gen::message(max_msg), gen::context(), gen::mode(), gen::seed32(), 0u8..2, 0u8..4).prop_map(
        |(set, key, msg, ctx, mode, rnd, sk_prov, pk_prov)| Case { set, key, msg, ctx, mode, rnd, sk_prov, pk_prov, classify: true },
    )
}

pub fn check(c: &Case, st: &mut Stats) -> CheckResult {
    let lib = libs()[c.set as usize % 3];
    let p = lib.p();
    let m = c.msg.bytes();
    let ctx = c.ctx.bytes();
    let mode = gen::mode_of(c.mode);
    let rnd = c.rnd.bytes();
    let xi = c.key.bytes();
    let (pk_gen, sk_gen) = g("keygen_from_seed", || lib.keygen_from_seed(&xi))?;
    let sk_rt = match g_sk(lib, &g("sk.into_bytes", || sk_gen.to_bytes())?)? {
        Ok(k) => k,
        Err(e) => fail!("sk_roundtrip:err", "set {}: generated private key rejected by try_from_bytes: {e}", p.id),
    };
    let sk = if c.sk_prov % 2 == 0 { &sk_gen } else { &sk_rt };
    let mut rng = TestRng::replay(&rnd);
    let sig = match g_sign(&**sk, &mut rng, &m, &ctx, mode) {
        Ok(Ok(s)) => s,
        Ok(Err(e)) => fail!("sign:err", "set {} mode {}: signing failed with ctx of {} bytes: {e}", p.id, mode.tag(), ctx.len()),
        Err(pi) => return Err(Fail::panic("sign", &pi)),
    };
    let pk: Box<dyn PkObj> = match c.pk_prov % 4 {
        0 => pk_gen,
        1 => g_pk(lib, &g("pk.into_bytes", || pk_gen.to_bytes())?)?,
        2 => g("get_public_key", || sk_gen.public_key())?,
        _ => g("get_public_key", || sk_rt.public_key())?,
    };
    let ok = g_verify(&*pk, &m, &sig, &ctx, mode)?;
    st.eval();
    let mut nontrivial = ctx.len() >= 254 || m.is_empty() || m.len() > 136 || c.sk_prov % 2 != 0 || c.pk_prov % 4 != 0 || mode != Mode::Pure;
    st.class(&format!("mode={}", mode.tag()));
    st.class(&format!("sk_prov={}", c.sk_prov % 2));
    st.class(&format!("pk_prov={}", c.pk_prov % 4));
    if ctx.len() >= 254 {
        st.class("ctx>=254");
    }
    if m.is_empty() {
        st.class("msg=empty");
    }
    if m.len() > 136 {
        st.class("msg>1block");
    }
    if c.classify {
        // classification only: what did the signing loop go through (reference diagnostics)
        let (_, sk_bytes) = rf::keygen_internal(&p, &xi);
        if let Ok((_, d)) = rf::sign(&p, &sk_bytes, &m, &ctx, mode, &rnd, 100_000) {
            if d.iterations >= 10 {
                st.class("rare:iterations>=10");
                nontrivial = true;
            }
            if d.hint_weight + 1 >= p.omega {
                st.class("rare:hint_weight>=omega-1");
                nontrivial = true;
            }
            if d.rejects.iter().any(|r| matches!(r, rf::Reject::HintWeight | rf::Reject::Ct0Norm)) {
                st.class("rare:rejected_on_hint_or_ct0");
                nontrivial = true;
            }
            st.maximum(&format!("iterations_{}", p.id), i64::from(d.iterations));
            st.maximum(&format!("hint_weight_{}", p.id), d.hint_weight as i64);
        }
    }
    if nontrivial {
        st.nontrivial(c);
    }
    st.sample(&format!("set{}:{}", p.id, mode.tag()), || {
        json!({"set": p.id, "seed": hex::encode(xi), "msg_len": m.len(), "ctx_len": ctx.len(), "mode": mode.tag(),
               "rnd": hex::encode(rnd), "sk_prov": c.sk_prov % 2, "pk_prov": c.pk_prov % 4, "verified": ok})
    });
    if !ok {
        fail!(
            format!("verify_false:set{}:{}", p.id, mode.tag()),
            "set {} mode {}: honest signature does not verify (sk_prov {}, pk_prov {}, |M|={}, |ctx|={})",
            p.id, mode.tag(), c.sk_prov % 2, c.pk_prov % 4, m.len(), ctx.len()
        );
    }
    Ok(())
}

/// Screened rare events: run the reference signer over a pool, keep the triples exhibiting a rare
/// event, run the library on exactly those.
fn screened(ctx: &Ctx, rep: &mut Report) {
    let pool = u64::from(ctx.n(6000, 120_000));
    let seed = ctx.seed;
    for (si, lib) in libs().into_iter().enumerate() {
        let p = lib.p();
        let sub = format!("screened_{}", p.id);
        run_sweep(
            rep,
            &sub,
            pool,
            false,
            |i, st| {
                let c = screened_case(seed, si as u8, i);
                let (_, sk) = rf::keygen_internal(&p, &c.key.bytes());
                let d = match rf::sign(&p, &sk, &c.msg.bytes(), &c.ctx.bytes(), gen::mode_of(c.mode), &c.rnd.bytes(), 100_000) {
                    Ok((_, d)) => d,
                    Err(_) => return Ok(()),
                };
                st.class("pool");
                let rare = d.iterations >= 10
                    || d.hint_weight + 1 >= p.omega
                    || d.rejects.iter().any(|r| matches!(r, rf::Reject::HintWeight | rf::Reject::Ct0Norm))
                    || d.max_z == p.gamma1 - p.beta - 1
                    || d.max_r0 == p.gamma2 - p.beta - 1;
                if !rare {
                    // not a rare event: still run the plain round trip once (the reference signature is paid for)
                    return check(&c, st);
                }
                if d.max_z == p.gamma1 - p.beta - 1 {
                    st.class("rare:max_z=bound-1");
                }
                if d.max_r0 == p.gamma2 - p.beta - 1 {
                    st.class("rare:max_r0=bound-1");
                }
                if d.hint_weight == p.omega {
                    st.class("rare:hint_weight=omega");
                }
                let mut c = c;
                c.classify = true;
                // all provenances on the rare triple
                for prov in 0..4u8 {
                    c.pk_prov = prov;
                    c.sk_prov = prov & 1;
                    check(&c, st)?;
                }
                Ok(())
            },
            |i| serde_json::to_value(screened_case(seed, si as u8, i)).expect("ser"),
        );
    }
}

fn screened_case(seed: u64, set: u8, i: u64) -> Case {
    let s = crate::engine::hash_of(&(seed, "c01-screen", set, i));
    Case {
        set,
        key: Seed32::Uniform(s % 16), // few keys, many messages: keygen is amortised by the cache-free reference anyway
        msg: BytesSpec { len: 1 + (s % 64) as u32, constant: None, seed: s },
        ctx: BytesSpec { len: ((s >> 8) % 3) as u32, constant: None, seed: s ^ 1 },
        mode: (i % 4) as u8,
        rnd: Seed32::Uniform(s ^ 2),
        sk_prov: 0,
        pk_prov: 0,
        classify: false,
    }
}

pub fn run(ctx: &Ctx, rep: &mut Report) {
    rep.assume("the verdict oracle is the library's own verifier on the library's own signature (the property itself); the reference signer is used only to classify cases (loop iterations, hint weight)");
    rep.assume(ASSUME_REF);
    let max_msg = if ctx.quick() { 4096 } else { 262_144 };
    run_generated(ctx, rep, "generated", ctx.n(8000, 120_000), || strategy(max_msg), check);
    screened(ctx, rep);
    // genuine signatures with extreme SampleInBall runs (corpus/sig_extremes), every provenance
    let mut ext: Vec<Case> = Vec::new();
    for e in gen::sig_corpus() {
        let (key, msg, rnd) = gen::xofsearch::sig_tuple_specs(e.index);
        for prov in 0..4u8 {
            ext.push(Case { set: match e.set { 44 => 0, 65 => 1, _ => 2 }, key: key.clone(), msg: msg.clone(), ctx: BytesSpec::empty(), mode: 0, rnd: rnd.clone(), sk_prov: prov & 1, pk_prov: prov, classify: false });
        }
        rep.stats("sample_in_ball_extreme_signatures").maximum(&format!("max_consecutive_rejections_set{}", e.set), i64::from(e.sib_max_run));
    }
    crate::engine::run_list(rep, "sample_in_ball_extreme_signatures", &ext, check);
    // very long messages (lengths around 2^16, 2^17, 2^20, 2^24), every mode and provenance pair
    let mut long: Vec<Case> = Vec::new();
    for (li, len) in crate::props::c03::LONG_MSG_LENS.iter().enumerate() {
        for mode in 0..4u8 {
            if ctx.quick() && *len > (1 << 20) + 168 && mode % 2 == 0 {
                continue;
            }
            let s = crate::engine::hash_of(&(ctx.seed, "c01-long", len, mode));
            long.push(Case { set: ((li + mode as usize + 1) % 3) as u8, key: Seed32::Uniform(s % 3), msg: BytesSpec { len: *len, constant: None, seed: s }, ctx: BytesSpec { len: (s % 256) as u32, constant: None, seed: s ^ 1 }, mode, rnd: Seed32::Uniform(s ^ 2), sk_prov: (s >> 9) as u8 & 1, pk_prov: (s >> 10) as u8 & 3, classify: false });
        }
    }
    crate::engine::run_list(rep, "long_messages", &long, check);
}

pub fn replay(_ctx: &Ctx, sub: &str, case: &Value) -> Option<CheckResult> {
    if sub == "generated" || sub.starts_with("screened_") || sub == "sample_in_ball_extreme_signatures" || sub == "long_messages" {
        let c: Case = from_case(case);
        let mut st = Stats::default();
        return Some(check(&c, &mut st));
    }
    None
}
