//! C02 — verification accepts exactly what FIPS 204 Verify accepts (differential).

use super::*;
use crate::engine::{hash_of, run_generated, run_list, Stats};
use crate::fail;
use crate::gen::aligned::Aligned;
use crate::gen::sigs::{self, ForgeSpec, HonestSpec, SigMut, Tuple};
use crate::gen::{self, BytesSpec, PkSpec};
use crate::libapi::{lib, libs};
use crate::refmodel::{self as rf, Verdict};
use proptest::prelude::*;
use serde::{Deserialize, Serialize};
use serde_json::json;

#[derive(Clone, Debug, Hash, Serialize, Deserialize)]
pub enum Base {
    Honest(HonestSpec),
    Forge(ForgeSpec),
    Uniform { pk: PkSpec, sig_seed: u64, msg: BytesSpec, ctx: BytesSpec, mode: u8 },
}

#[derive(Clone, Debug, Hash, Serialize, Deserialize)]
pub enum Present {
    Same,
    /// verify under another mode / pre-hash function
    OtherMode(u8),
    /// same tuple, context replaced by one longer than 255 bytes
    LongCtx(BytesSpec),
    /// context = original context followed by padding up to > 255 bytes (prefix preserved)
    ExtendedCtx(u16),
    OtherPk(PkSpec),
    OtherMsg(BytesSpec),
    /// through the internal interface (M' = message, no formatting)
    Internal,
    /// context of `256*a + r` bytes together with a signature forged (t1 = 0 base) for exactly the string a
    /// verifier that wraps the length byte would hash: the reference rejects (ctx too long)
    AliasLongCtx(u16),
    /// signature made valid for the INTERNAL interface (M' = message) but presented to the external verifier
    InternalSigToExternal,
    /// the formatted input M' of the original tuple presented as the message, with an empty context, pure mode
    FormattedAsMessage,
}

#[derive(Clone, Debug, Hash, Serialize, Deserialize)]
pub struct Mutant {
    pub muts: Vec<SigMut>,
    /// recompute c~ after the field-level mutations (only meaningful under a t1 = 0 key)
    pub rehash: bool,
    pub present: Present,
}

#[derive(Clone, Debug, Hash, Serialize, Deserialize)]
pub struct Case {
    pub set: u8,
    pub base: Base,
    pub mutants: Vec<Mutant>,
}

fn present() -> impl Strategy<Value = Present> {
    prop_oneof![
        12 => Just(Present::Same),
        2 => (0u8..4).prop_map(Present::OtherMode),
        1 => gen::long_context().prop_map(Present::LongCtx),
        1 => any::<u16>().prop_map(Present::ExtendedCtx),
        1 => gen::pk_spec().prop_map(Present::OtherPk),
        1 => gen::message(300).prop_map(Present::OtherMsg),
        1 => Just(Present::Internal),
        2 => any::<u16>().prop_map(Present::AliasLongCtx),
        1 => Just(Present::InternalSigToExternal),
        1 => Just(Present::FormattedAsMessage),
    ]
}

fn mutant() -> impl Strategy<Value = Mutant> {
    (proptest::collection::vec(sigs::sig_mut(), 0..3), any::<bool>(), present()).prop_map(|(muts, rehash, present)| Mutant { muts, rehash, present })
}

pub fn strategy(max_msg: u32) -> impl Strategy<Value = Case> {
    let base = prop_oneof![
        3 => sigs::honest_spec(max_msg).prop_map(Base::Honest),
        6 => sigs::forge_spec(max_msg, sigs::zval_ok()).prop_map(Base::Forge),
        2 => sigs::forge_spec(max_msg, sigs::zval()).prop_map(Base::Forge),
        1 => (gen::pk_spec(), any::<u64>(), gen::message(max_msg), gen::context(), gen::mode())
            .prop_map(|(pk, sig_seed, msg, ctx, mode)| Base::Uniform { pk, sig_seed, msg, ctx, mode }),
    ];
    (0u8..3, base, proptest::collection::vec(mutant(), 4..14)).prop_map(|(set, base, mutants)| Case { set, base, mutants })
}

struct BuiltBase {
    tuple: Tuple,
    forged: bool,
    /// the reference must accept the base (honest, or forged with every coefficient in norm)
    expect_accept: bool,
}

fn build_base(p: &rf::Params, b: &Base) -> BuiltBase {
    match b {
        Base::Honest(h) => BuiltBase { tuple: sigs::build_honest(p, h).tuple, forged: false, expect_accept: true },
        Base::Forge(f) => {
            let fb = sigs::build_forge(p, f);
            BuiltBase { expect_accept: fb.in_norm, tuple: fb.tuple, forged: true }
        }
        Base::Uniform { pk, sig_seed, msg, ctx, mode } => BuiltBase {
            tuple: Tuple {
                set: p.id,
                pk: gen::build_pk(p, pk),
                m: msg.bytes(),
                ctx: ctx.bytes(),
                mode: gen::mode_of(*mode),
                sig: gen::prg_bytes(*sig_seed, "uniform-sig", p.sig_len),
            },
            forged: false,
            expect_accept: false,
        },
    }
}

fn present_tuple(p: &rf::Params, t: &Tuple, pr: &Present) -> (Tuple, bool) {
    let mut t = t.clone();
    let mut internal = false;
    match pr {
        Present::Same => {}
        Present::OtherMode(m) => t.mode = gen::mode_of(*m),
        Present::LongCtx(c) => t.ctx = c.bytes(),
        Present::ExtendedCtx(n) => {
            let target = 256 + (*n as usize % 1024);
            let mut c = t.ctx.clone();
            while c.len() < target {
                c.push((c.len() % 251) as u8);
            }
            t.ctx = c;
        }
        Present::OtherPk(s) => t.pk = gen::build_pk(p, s),
        Present::OtherMsg(m) => t.m = m.bytes(),
        Present::Internal => internal = true,
        Present::AliasLongCtx(n) => t.ctx = alias_ctx(*n, &t.ctx),
        Present::InternalSigToExternal => {}
        Present::FormattedAsMessage => {
            if t.ctx.len() <= 255 {
                t.m = rf::format_message(t.mode, &t.m, &t.ctx);
                t.ctx = vec![];
                t.mode = Mode::Pure;
            }
        }
    }
    (t, internal)
}

/// lengths 256, 257, 511, 512, 513, 65536 + k, and arbitrary 256..=1279; prefix = the original context
fn alias_ctx(n: u16, base: &[u8]) -> Vec<u8> {
    let len = match n % 8 {
        0 => 256,
        1 => 257,
        2 => 511,
        3 => 512,
        4 => 65_536 + (n as usize >> 3) % 256,
        5 => 256 + base.len() % 256,
        _ => 256 + (n as usize >> 3) % 1024,
    };
    let mut c = base.to_vec();
    while c.len() < len {
        c.push((c.len() % 249) as u8 ^ 0x5A);
    }
    c.truncate(len);
    c
}

fn compare(libr: &dyn Lib, p: &rf::Params, t: &Tuple, internal: bool, st: &mut Stats, label: &str) -> Result<Verdict, Fail> {
    let (rv, lv) = if internal {
        // the internal interface has no context: its only caller passes ctx = []
        let rv = rf::verify_internal(p, &t.pk, &t.m, &t.sig);
        let pk = g_pk(libr, &t.pk)?;
        let lv = g("_internal_verify", || pk.internal_verify(&t.m, &t.sig, &[]))?;
        (rv, lv)
    } else {
        let rv = rf::verify(p, &t.pk, &t.m, &t.sig, &t.ctx, t.mode);
        let lv = g_verify_bytes(libr, &t.pk, &t.m, &t.sig, &t.ctx, t.mode)?;
        (rv, lv)
    };
    st.eval();
    st.class(&format!("ref={}", rv.tag()));
    if lv != rv.accepted() {
        let dir = if rv.accepted() { "rejects_valid" } else { "accepts_invalid" };
        fail!(
            format!("{dir}:set{}:{}", p.id, rv.tag()),
            "set {} {} [{label}]: library verify = {lv}, FIPS 204 Verify = {} ({}); |M|={}, |ctx|={}, entry={}",
            p.id, t.mode.tag(), rv.accepted(), rv.tag(), t.m.len(), t.ctx.len(), if internal { "_internal_verify" } else { "verify/hash_verify" }
        );
    }
    Ok(rv)
}

pub fn check(c: &Case, st: &mut Stats) -> CheckResult {
    let libr = libs()[c.set as usize % 3];
    let p = libr.p();
    let b = build_base(&p, &c.base);
    let base_class = match &c.base {
        Base::Honest(_) => "honest",
        Base::Forge(_) => "forged",
        Base::Uniform { .. } => "uniform",
    };
    let rv = compare(libr, &p, &b.tuple, false, st, &format!("base:{base_class}"))?;
    if b.expect_accept {
        assert!(rv.accepted(), "harness: reference rejects a {base_class} base it must accept ({rv:?})");
    }
    st.class(&format!("base:{base_class}:{}", rv.tag()));
    if rv.accepted() && b.forged {
        st.nontrivial(&(c.set, hash_of(&b.tuple.sig)));
        st.class("accepted_nonhonest");
    }
    st.sample(&format!("base:{base_class}:{}", rv.tag()), || {
        json!({"set": p.id, "base": format!("{:?}", c.base).chars().take(300).collect::<String>(), "ref": rv.tag(), "sig": crate::engine::hex_abbrev(&b.tuple.sig)})
    });
    for mu in &c.mutants {
        // field-level first, optional re-hash, then encoding-level
        let mut sig = b.tuple.sig.clone();
        for m in mu.muts.iter().filter(|m| m.field_level()) {
            sig = sigs::apply_mut(&p, &sig, m);
        }
        let mut rehashed = false;
        if mu.rehash && b.forged {
            let r = if matches!(mu.present, Present::Internal | Present::InternalSigToExternal) { sigs::rehash_t1_zero_internal(&p, &b.tuple, &sig) } else { sigs::rehash_t1_zero(&p, &b.tuple, &sig) };
            if let Some(s) = r {
                sig = s;
                rehashed = true;
            }
        }
        for m in mu.muts.iter().filter(|m| !m.field_level()) {
            sig = sigs::apply_mut(&p, &sig, m);
        }
        let mut t = b.tuple.clone();
        t.sig = sig;
        let (mut t, internal) = present_tuple(&p, &t, &mu.present);
        if let (Present::AliasLongCtx(_), true) = (&mu.present, b.forged) {
            let f = rf::sig_decode(&p, &t.sig);
            if let Ok(h) = &f.h {
                let mut m_prime = vec![u8::from(t.mode != Mode::Pure), (t.ctx.len() % 256) as u8];
                m_prime.extend_from_slice(&t.ctx);
                if t.mode == Mode::Pure {
                    m_prime.extend_from_slice(&t.m);
                } else {
                    let (oid, phm) = rf::prehash(t.mode, &t.m);
                    m_prime.extend_from_slice(&oid);
                    m_prime.extend_from_slice(&phm);
                }
                let c = sigs::ctilde_for_t1_zero(&p, &t.pk, &m_prime, &f.z, h);
                t.sig = rf::sig_encode(&p, &c, &f.z, h);
                st.class("alias_long_ctx:forged_for_wrapped_length");
            }
        }
        let tags: Vec<&str> = mu.muts.iter().map(SigMut::tag).collect();
        let label = format!("{base_class}+{}{}+{:?}", tags.join("+"), if rehashed { "+rehash" } else { "" }, std::mem::discriminant(&mu.present));
        let rv = compare(libr, &p, &t, internal, st, &label)?;
        for tg in &tags {
            st.class(&format!("mut:{tg}:{}", rv.tag()));
        }
        let changed = t.sig != b.tuple.sig || !matches!(mu.present, Present::Same);
        if rv.accepted() && changed {
            st.class("accepted_nonhonest");
            st.nontrivial(&(c.set, hash_of(&t.sig), hash_of(&t.m), hash_of(&t.ctx), hash_of(&t.pk)));
        }
        let near_miss = b.expect_accept && changed && mu.muts.len() <= 1 && matches!(rv, Verdict::Norm | Verdict::Hint(_) | Verdict::Hash | Verdict::CtxTooLong);
        if near_miss {
            st.class(&format!("near_miss:{}", rv.tag()));
            st.nontrivial(&(c.set, hash_of(&t.sig), hash_of(&t.m), hash_of(&t.ctx), hash_of(&t.pk)));
        }
        st.sample(&format!("mutant:{}:{}", tags.first().unwrap_or(&"none"), rv.tag()), || {
            json!({"set": p.id, "label": label, "ref": rv.tag(), "ctx_len": t.ctx.len(), "sig": crate::engine::hex_abbrev(&t.sig)})
        });
    }
    Ok(())
}

// ---------------------------------------------------------------------------------------------
// Aligned-residue signatures (DESIGN 3.2(c)): corpus replay (+ fresh constructions in thorough)

#[derive(Clone, Debug, Serialize, Deserialize)]
pub struct AlignedCase {
    pub aligned: Aligned,
    pub mode: u8,
    pub hint_full: bool,
}

pub fn load_aligned_corpus(root: &str) -> Vec<Aligned> {
    let dir = format!("{root}/corpus/aligned");
    let mut out = Vec::new();
    if let Ok(rd) = std::fs::read_dir(&dir) {
        let mut names: Vec<_> = rd.filter_map(Result::ok).map(|e| e.path()).filter(|p| p.extension().is_some_and(|e| e == "json")).collect();
        names.sort();
        for n in names {
            let a: Aligned = serde_json::from_str(&std::fs::read_to_string(&n).expect("corpus file")).expect("corpus json");
            out.push(a);
        }
    }
    out
}

pub fn aligned_tuple(c: &AlignedCase) -> Tuple {
    let p = rf::params(c.aligned.set);
    let rho: [u8; 32] = core::array::from_fn(|i| c.aligned.rho[i]);
    let pk = sigs::t1_zero_pk(&p, &rho);
    let z = c.aligned.z(&p);
    let h = sigs::make_h(&p, 1, if c.hint_full { &sigs::HKind::Full } else { &sigs::HKind::Empty });
    let m = b"aligned residues".to_vec();
    let ctx = vec![0xA5u8; 3];
    let mode = gen::mode_of(c.mode);
    let sig = sigs::forge_fields(&p, &pk, &m, &ctx, mode, &z, &h);
    Tuple { set: p.id, pk, m, ctx, mode, sig }
}

pub fn check_aligned(c: &AlignedCase, st: &mut Stats) -> CheckResult {
    let p = rf::params(c.aligned.set);
    let t = aligned_tuple(c);
    let rv = rf::verify(&p, &t.pk, &t.m, &t.sig, &t.ctx, t.mode);
    assert!(rv.accepted(), "harness: reference rejects an aligned-residue forgery ({rv:?})");
    st.eval();
    st.class(&format!("aligned:set{}", p.id));
    st.maximum(&format!("estimate_over_2^31_permille_set{}", p.id), c.aligned.estimate * 1000 / (1i64 << 31));
    st.nontrivial(&(p.id, hash_of(&t.sig)));
    st.sample(&format!("aligned:set{}", p.id), || {
        json!({"set": p.id, "rho": hex::encode(&c.aligned.rho), "row": c.aligned.row, "estimate_sum": c.aligned.estimate, "two_pow_31": 1u64 << 31, "a": c.aligned.a})
    });
    let lv = g_verify_bytes(lib(p.id), &t.pk, &t.m, &t.sig, &t.ctx, t.mode)?;
    if !lv {
        fail!(
            format!("rejects_valid:set{}:aligned", p.id),
            "set {}: signature with sign-aligned inverse-NTT inputs (estimated unreduced sum {} vs 2^31 = {}) is accepted by FIPS 204 Verify but rejected by the library",
            p.id, c.aligned.estimate, 1u64 << 31
        );
    }
    Ok(())
}

fn aligned_cases(ctx: &Ctx) -> Vec<AlignedCase> {
    let mut cases = Vec::new();
    for a in load_aligned_corpus(&ctx.root) {
        for mode in [0u8, 2] {
            cases.push(AlignedCase { aligned: a.clone(), mode, hint_full: mode == 2 });
        }
    }
    if !ctx.quick() {
        for id in [65u32, 87] {
            let p = rf::params(id);
            for k in 0..2u64 {
                let rho = gen::prg_bytes(hash_of(&(ctx.seed, "aligned-rho", id, k)), "rho", 32);
                let row = (hash_of(&(ctx.seed, "aligned-row", id, k)) % p.k as u64) as usize;
                if let Some(a) = crate::gen::aligned::construct(&p, &rho, row, 16) {
                    cases.push(AlignedCase { aligned: a, mode: (k % 4) as u8, hint_full: k % 2 == 0 });
                }
            }
        }
    }
    cases
}

/// Commitment hashes whose SampleInBall run is extreme (corpus/sample_in_ball, found by an offline search that
/// depends only on SHAKE256 and tau): longest run of consecutive rejections / most rejections in total.
#[derive(Clone, Debug, Serialize, Deserialize)]
pub struct SibCase {
    pub set: u32,
    pub c_tilde: String,
    pub max_consecutive_rejections: u32,
    pub total_rejections: u32,
}

pub fn load_sib_corpus(root: &str) -> Vec<SibCase> {
    let dir = format!("{root}/corpus/sample_in_ball");
    let mut out = Vec::new();
    if let Ok(rd) = std::fs::read_dir(&dir) {
        let mut names: Vec<_> = rd.filter_map(Result::ok).map(|e| e.path()).filter(|p| p.extension().is_some_and(|e| e == "json")).collect();
        names.sort();
        for n in names {
            let v: Vec<SibCase> = serde_json::from_str(&std::fs::read_to_string(&n).expect("corpus file")).expect("corpus json");
            out.extend(v);
        }
    }
    out
}

pub fn check_sib(c: &SibCase, st: &mut Stats) -> CheckResult {
    let p = rf::params(c.set);
    let libr = lib(p.id);
    let ct = hex::decode(&c.c_tilde).expect("c_tilde hex");
    // signature = c~ || zeros: decodable (z = gamma1 everywhere, no hints); SampleInBall runs before any rejection
    let mut sig = vec![0u8; p.sig_len];
    sig[..ct.len()].copy_from_slice(&ct);
    st.class(&format!("set{}:max_run={}", p.id, c.max_consecutive_rejections));
    st.maximum(&format!("max_consecutive_rejections_set{}", p.id), i64::from(c.max_consecutive_rejections));
    st.maximum(&format!("max_total_rejections_set{}", p.id), i64::from(c.total_rejections));
    st.nontrivial(&(c.set, &c.c_tilde));
    st.sample(&format!("set{}", p.id), || serde_json::to_value(c).expect("ser"));
    // the challenge itself through the hook, against the reference
    let ch = g("sample_in_ball", || fips204::verif_hooks::sample_in_ball::<false>(p.tau as i32, &ct))?;
    st.eval();
    if crate::libapi::to_i64(&ch) != rf::sample_in_ball(&p, &ct) {
        fail!(format!("sample_in_ball_differs:set{}", p.id), "set {}: sample_in_ball differs from the reference on a c~ with {} consecutive rejections", p.id, c.max_consecutive_rejections);
    }
    for (pk, mode) in [(sigs::t1_zero_pk(&p, &[3u8; 32]), Mode::Pure), (vec![0xA7u8; p.pk_len], Mode::Sha512)] {
        let rv = rf::verify(&p, &pk, b"extreme challenge", &sig, &[], mode);
        let lv = g_verify_bytes(libr, &pk, b"extreme challenge", &sig, &[], mode)?;
        st.eval();
        if lv != rv.accepted() {
            fail!(format!("sib_verdict_differs:set{}", p.id), "set {}: verify = {lv}, FIPS 204 Verify = {} on a signature whose c~ has an extreme SampleInBall run", p.id, rv.accepted());
        }
    }
    Ok(())
}

/// Forgeries (t1 = 0) whose response vector is the maximal-forward-NTT-growth construction.
#[derive(Clone, Debug, Serialize, Deserialize)]
pub struct GrowthSig {
    pub set: u8,
    pub negative: bool,
    pub mode: u8,
    pub hint_full: bool,
}

pub fn check_growth_sig(c: &GrowthSig, st: &mut Stats) -> CheckResult {
    let libr = libs()[c.set as usize % 3];
    let p = libr.p();
    let zg = crate::props::c18::growth_vector_guided(&p, c.negative);
    let z: Vec<rf::Poly> = vec![zg; p.l];
    let h = sigs::make_h(&p, 3, if c.hint_full { &sigs::HKind::Full } else { &sigs::HKind::Empty });
    let pk = sigs::t1_zero_pk(&p, &[0x11u8; 32]);
    let (m, cx, mode) = (b"maximal growth".to_vec(), vec![1u8, 2], gen::mode_of(c.mode));
    let sig = sigs::forge_fields(&p, &pk, &m, &cx, mode, &z, &h);
    let rv = rf::verify(&p, &pk, &m, &sig, &cx, mode);
    assert!(rv.accepted(), "harness: reference rejects the maximal-growth forgery ({rv:?})");
    st.eval();
    st.nontrivial(&(c.set, c.negative, c.mode, c.hint_full));
    st.class(&format!("growth_sig:set{}", p.id));
    st.sample(&format!("growth_sig:set{}", p.id), || json!({"set": p.id, "negative": c.negative, "mode": mode.tag(), "z_nonzero": zg.iter().enumerate().filter(|(_, &x)| x != 0).map(|(i, &x)| (i, x)).collect::<Vec<_>>()}));
    if !g_verify_bytes(libr, &pk, &m, &sig, &cx, mode)? {
        fail!(format!("rejects_valid:set{}:max_growth", p.id), "set {}: signature whose response vector maximises forward-NTT growth is accepted by FIPS 204 Verify but rejected by the library", p.id);
    }
    Ok(())
}

#[derive(Clone, Debug, Hash, serde::Serialize, serde::Deserialize)]
pub struct LongCase {
    pub set: u8,
    pub len: u32,
    pub mode: u8,
    pub seed: u64,
}

/// Honest tuple over a very long message and its nearest neighbours (last / first byte changed, one byte
/// shorter / longer, prefix of 2^16 bytes only): the library's verdict must equal the reference's on each.
pub fn check_long(c: &LongCase, st: &mut Stats) -> CheckResult {
    let libr = crate::libapi::libs()[c.set as usize % 3];
    let p = libr.p();
    let mode = crate::gen::mode_of(c.mode);
    let xi = crate::gen::Seed32::Uniform(c.seed % 3).bytes();
    let (pk, sk) = rf::keygen_internal(&p, &xi);
    let m = crate::gen::prg_bytes(c.seed, "c02-long", c.len as usize);
    let ctx = crate::gen::prg_bytes(c.seed ^ 1, "c02-long-ctx", (c.seed % 5) as usize);
    let (sig, _) = rf::sign(&p, &sk, &m, &ctx, mode, &[0x21; 32], 100_000).expect("reference sign");
    let k = g_pk(libr, &pk)?;
    let mut variants: Vec<(&str, Vec<u8>)> = vec![("same", m.clone())];
    let mut v = m.clone();
    let n = v.len();
    v[n - 1] ^= 1;
    variants.push(("last_byte_changed", v));
    let mut v = m.clone();
    v[0] ^= 0x80;
    variants.push(("first_byte_changed", v));
    variants.push(("one_byte_shorter", m[..n - 1].to_vec()));
    let mut v = m.clone();
    v.push(0);
    variants.push(("one_byte_longer", v));
    if n > 65_536 {
        variants.push(("first_65536_bytes_only", m[..65_536].to_vec()));
        variants.push(("length_mod_65536", m[..n % 65_536].to_vec()));
    }
    for (name, vm) in &variants {
        let expect = rf::verify(&p, &pk, vm, &sig, &ctx, mode).accepted();
        let got = g_verify(&*k, vm, &sig, &ctx, mode)?;
        st.eval();
        st.class(&format!("{name}:{expect}"));
        if got != expect {
            return Err(Fail::new(format!("long_message_verdict:{name}:set{}", p.id), format!("set {} {}: |M| = {}: verify says {got} on variant '{name}', FIPS 204 Verify says {expect}", p.id, mode.tag(), c.len)));
        }
    }
    st.nontrivial(c);
    Ok(())
}

pub fn run(ctx: &Ctx, rep: &mut Report) {
    rep.assume(ASSUME_REF);
    rep.assume("accept-side cases under an honest public key come only from honest signing; accept-side boundary cases come from the t1 = 0 construction (every pk-length string is a valid public key)");
    rep.assume("the aligned-residue construction reaches the 2^31 region for ML-DSA-65 and ML-DSA-87 only (for ML-DSA-44 no small-preimage combination exists at K = 16)");
    let max_msg = if ctx.quick() { 2048 } else { 65_536 };
    run_generated(ctx, rep, "generated", ctx.n(10_000, 150_000), || strategy(max_msg), check);
    let ac = aligned_cases(ctx);
    if ac.is_empty() {
        rep.note("aligned corpus empty");
    }
    run_list(rep, "aligned", &ac, check_aligned);
    let mut gs = Vec::new();
    for set in 0..3u8 {
        for negative in [false, true] {
            for mode in 0..4u8 {
                gs.push(GrowthSig { set, negative, mode, hint_full: mode % 2 == 1 });
            }
        }
    }
    run_list(rep, "max_growth_z", &gs, check_growth_sig);
    let sib = load_sib_corpus(&ctx.root);
    run_list(rep, "sample_in_ball_extremes", &sib, check_sib);
    crate::props::history::run(ctx, rep, 2500, 60000);
    let mut long = Vec::new();
    for (li, len) in crate::props::c03::LONG_MSG_LENS.iter().enumerate() {
        for mode in 0..4u8 {
            if ctx.quick() && *len > (1 << 20) + 168 && mode % 2 == 0 {
                continue;
            }
            long.push(LongCase { set: ((li + mode as usize + 2) % 3) as u8, len: *len, mode, seed: crate::engine::hash_of(&(ctx.seed, "c02-long", len, mode)) });
        }
    }
    run_list(rep, "long_messages", &long, check_long);
}

pub fn replay(_ctx: &Ctx, sub: &str, case: &Value) -> Option<CheckResult> {
    match sub {
        "generated" => Some(check(&from_case::<Case>(case), &mut Stats::default())),
        "aligned" => Some(check_aligned(&from_case::<AlignedCase>(case), &mut Stats::default())),
        "sample_in_ball_extremes" => Some(check_sib(&from_case::<SibCase>(case), &mut Stats::default())),
        "long_messages" => Some(check_long(&from_case::<LongCase>(case), &mut Stats::default())),
        "max_growth_z" => Some(check_growth_sig(&from_case::<GrowthSig>(case), &mut Stats::default())),
        _ => None,
    }
}
