//! C03 — signatures are byte-identical to FIPS 204 Sign for the drawn rnd.

use super::*;
use crate::engine::{run_generated, Stats};
use crate::fail;
use crate::gen::{self, BytesSpec, Seed32, SkSpec};
use crate::libapi::libs;
use crate::refmodel as rf;
use proptest::prelude::*;
use rand_core::RngCore;
use serde::{Deserialize, Serialize};
use serde_json::json;

#[derive(Clone, Debug, Hash, Serialize, Deserialize)]
pub struct Case {
    pub set: u8,
    pub sk: SkSpec,
    pub msg: BytesSpec,
    pub ctx: BytesSpec,
    pub mode: u8,
    pub rnd: Seed32,
    /// bytes the RNG double hands out to the harness before the library draws (different RNG history)
    pub pre_draw: u8,
}

fn strategy(max_msg: u32) -> impl Strategy<Value = Case> {
    (0u8..3, gen::sk_spec(), gen::message(max_msg), gen::context(), gen::mode(), gen::seed32(), 1u8..64)
        .prop_map(|(set, sk, msg, ctx, mode, rnd, pre_draw)| Case { set, sk, msg, ctx, mode, rnd, pre_draw })
}

pub const ITER_CAP: u32 = 400;

fn diff(a: &[u8], b: &[u8]) -> String {
    match a.iter().zip(b).position(|(x, y)| x != y) {
        Some(i) => format!("first difference at byte {i} of {}", a.len()),
        None => format!("lengths {} vs {}", a.len(), b.len()),
    }
}

pub fn check(c: &Case, st: &mut Stats) -> CheckResult {
    let lib = libs()[c.set as usize % 3];
    let p = lib.p();
    let built = gen::build_sk(&p, &c.sk);
    let m = c.msg.bytes();
    let ctx = c.ctx.bytes();
    let mode = gen::mode_of(c.mode);
    let rnd = c.rnd.bytes();
    let (rsig, diag) = match rf::sign(&p, &built.sk, &m, &ctx, mode, &rnd, ITER_CAP) {
        Ok(x) => x,
        Err(_) => {
            st.class("discarded:reference_needs>400_iterations");
            return Ok(());
        }
    };
    let sk = match g_sk(lib, &built.sk)? {
        Ok(k) => k,
        Err(_) => {
            // outside the domain of C03 (deserialisation did not accept); C10 judges that
            st.class("discarded:sk_rejected_by_library");
            return Ok(());
        }
    };
    let generated = matches!(c.sk, SkSpec::Generated(_));
    let tag = format!("set{}:{}", p.id, mode.tag());
    // 1. external interface with the caller's RNG. When the reference needed many iterations the call runs in a
    // sacrificial thread with a time limit: a signer that cycles forever must not block the other cases.
    let (sig, delivered) = if diag.iterations >= 12 {
        let (sk_t, m_t, ctx_t) = (g("sk.clone", || sk.clone_box())?, m.clone(), ctx.clone());
        let r = crate::engine::with_time_limit(30, move || {
            let mut rng = TestRng::replay(&rnd);
            let r = g_sign(&*sk_t, &mut rng, &m_t, &ctx_t, mode);
            (r, rng.delivered)
        });
        match r {
            None => {
                st.class("abandoned:library_sign_did_not_return_in_30s");
                return Ok(());
            }
            Some((Ok(Ok(s)), d)) => (s, d),
            Some((Ok(Err(e)), _)) => fail!(format!("sign_err:{tag}"), "{tag}: signing failed: {e}"),
            Some((Err(pi), _)) => return Err(Fail::panic("sign", &pi)),
        }
    } else {
        let mut rng = TestRng::replay(&rnd);
        match g_sign(&*sk, &mut rng, &m, &ctx, mode) {
            Ok(Ok(s)) => (s, rng.delivered),
            Ok(Err(e)) => fail!(format!("sign_err:{tag}"), "{tag}: signing failed: {e}"),
            Err(pi) => return Err(Fail::panic("sign", &pi)),
        }
    };
    st.eval();
    if delivered != 32 {
        fail!(format!("sign_drew:{tag}"), "{tag}: signing drew {delivered} bytes from the RNG instead of 32");
    }
    if sig != rsig {
        fail!(format!("sig_mismatch:{tag}"), "{tag}: signature differs from FIPS 204 Sign with the same rnd ({}; reference used {} iterations)", diff(&sig, &rsig), diag.iterations);
    }
    // 2. function of (sk, M, ctx, mode, rnd) only: other RNG history, cloned and round-tripped key
    let mut data = gen::prg_bytes(u64::from(c.pre_draw), "c03-pre", c.pre_draw as usize);
    data.extend_from_slice(&rnd);
    let mut rng2 = TestRng::replay(&data);
    let mut sink = vec![0u8; c.pre_draw as usize];
    rng2.fill_bytes(&mut sink);
    let sk2 = if c.pre_draw % 2 == 0 { g("sk.clone", || sk.clone_box())? } else {
        match g_sk(lib, &g("sk.into_bytes", || sk.to_bytes())?)? {
            Ok(k) => k,
            Err(e) => fail!("sk_roundtrip:err", "{tag}: accepted private key rejected after re-serialisation: {e}"),
        }
    };
    let sig2 = match g_sign(&*sk2, &mut rng2, &m, &ctx, mode) {
        Ok(Ok(s)) => s,
        Ok(Err(e)) => fail!(format!("sign_err:{tag}"), "{tag}: second signing failed: {e}"),
        Err(pi) => return Err(Fail::panic("sign", &pi)),
    };
    st.eval();
    if sig2 != sig {
        fail!(format!("sig_not_function_of_inputs:{tag}"), "{tag}: same (sk, M, ctx, mode, rnd) gave a different signature with another RNG history / key copy ({})", diff(&sig2, &sig));
    }
    // 3. generated key object (not deserialised)
    if let SkSpec::Generated(seed) = &c.sk {
        let (_, skg) = g("keygen_from_seed", || lib.keygen_from_seed(&seed.bytes()))?;
        let mut rng3 = TestRng::replay(&rnd);
        let sig3 = match g_sign(&*skg, &mut rng3, &m, &ctx, mode) {
            Ok(Ok(s)) => s,
            Ok(Err(e)) => fail!(format!("sign_err:{tag}"), "{tag}: signing with generated key failed: {e}"),
            Err(pi) => return Err(Fail::panic("sign", &pi)),
        };
        st.eval();
        if sig3 != rsig {
            fail!(format!("sig_mismatch_generated_key:{tag}"), "{tag}: signature by the generated key object differs from FIPS 204 Sign ({})", diff(&sig3, &rsig));
        }
    }
    // 4. internal interface (Algorithm 7 on M' = message)
    if mode == Mode::Pure {
        if let Ok((rint, dint)) = rf::sign_internal(&p, &built.sk, &m, &rnd, ITER_CAP) {
            let call = {
                let (sk_t, m_t) = (g("sk.clone", || sk.clone_box())?, m.clone());
                move || crate::engine::guarded(|| sk_t.internal_sign(&m_t, &[], rnd))
            };
            let res = if dint.iterations >= 12 {
                match crate::engine::with_time_limit(30, call) {
                    Some(r) => r,
                    None => {
                        st.class("abandoned:library_internal_sign_did_not_return_in_30s");
                        return Ok(());
                    }
                }
            } else {
                call()
            };
            let sint = match res.map_err(|pi| Fail::panic("_internal_sign", &pi))? {
                Ok(s) => s,
                Err(e) => fail!(format!("internal_sign_err:set{}", p.id), "set {}: _internal_sign failed: {e}", p.id),
            };
            st.eval();
            if sint != rint {
                fail!(format!("internal_sig_mismatch:set{}", p.id), "set {}: _internal_sign differs from FIPS 204 Sign_internal ({})", p.id, diff(&sint, &rint));
            }
        }
    }
    st.class(&tag);
    st.class(if generated { "key=generated" } else if built.consistent { "key=fields_consistent" } else { "key=fields_inconsistent" });
    if diag.iterations >= 2 {
        st.class("iterations>=2");
    }
    if diag.iterations >= 10 {
        st.class("rare:iterations>=10");
    }
    if diag.hint_weight + 1 >= p.omega {
        st.class("rare:hint_weight>=omega-1");
    }
    if diag.rejects.iter().any(|r| matches!(r, rf::Reject::HintWeight)) {
        st.class("rare:rejected_on_hint_weight");
    }
    if diag.rejects.iter().any(|r| matches!(r, rf::Reject::Ct0Norm)) {
        st.class("rare:rejected_on_ct0");
    }
    st.maximum(&format!("iterations_{}", p.id), i64::from(diag.iterations));
    if mode != Mode::Pure || !ctx.is_empty() || !generated || diag.iterations >= 2 {
        st.nontrivial(c);
    }
    st.sample(&tag, || {
        json!({"set": p.id, "sk": format!("{:?}", c.sk), "msg_len": m.len(), "ctx_len": ctx.len(), "mode": mode.tag(), "rnd": hex::encode(rnd),
               "iterations": diag.iterations, "hint_weight": diag.hint_weight, "sig": crate::engine::hex_abbrev(&sig)})
    });
    Ok(())
}

/// Messages far beyond one hash block: lengths around 2^16, 2^17, 2^20 and 2^24 (any 16- / 24-bit length or
/// offset counter inside the message path wraps here)
pub const LONG_MSG_LENS: [u32; 7] = [65_535, 65_536, 65_537, 131_072, 1 << 20, (1 << 20) + 168, (1 << 24) + 1];

/// What 16 threads get when their calls are the FIRST library calls of a fresh process, started together
/// behind a barrier (lazily initialised statics, first-use races). One line per mismatch.
pub fn cold_start_lines(seed: u64) -> Vec<String> {
    use std::sync::atomic::{AtomicUsize, Ordering};
    use std::sync::Arc;
    let n = 16usize;
    // per-process pattern: which parameter sets the threads use and what their very first call is
    let pattern = seed % 4;
    // expectations first, from the reference only (no library call before the barrier)
    // one tuple per parameter set in use (all threads of a set share it: one reference computation per set keeps
    // the probe process short, so that many processes can be started)
    let per_set: Vec<(usize, [u8; 32], Vec<u8>, [u8; 32], Mode)> = (0..3usize)
        .map(|set| {
            let s = crate::engine::hash_of(&(seed, "cold", set));
            (set, Seed32::Uniform(s).bytes(), gen::prg_bytes(s, "cold-msg", 1 + (s % 40) as usize), Seed32::Uniform(!s).bytes(), gen::mode_of((s >> 8) as u8))
        })
        .collect();
    let set_of = |i: usize| if pattern % 2 == 0 { (seed / 4 % 3) as usize } else { i % 3 };
    let mut expect_set: Vec<Option<(Vec<u8>, Vec<u8>, Vec<u8>)>> = vec![None; 3];
    for i in 0..n {
        let set = set_of(i);
        if expect_set[set].is_none() {
            let (_, xi, m, rnd, mode) = &per_set[set];
            let p = libs()[set].p();
            let (pk, sk) = rf::keygen_internal(&p, xi);
            let (sig, _) = rf::sign(&p, &sk, m, &[], *mode, rnd, 100_000).expect("reference sign");
            expect_set[set] = Some((pk, sk, sig));
        }
    }
    let tuples: Vec<(usize, [u8; 32], Vec<u8>, [u8; 32], Mode)> = (0..n).map(|i| per_set[set_of(i)].clone()).collect();
    let expect: Vec<(Vec<u8>, Vec<u8>, Vec<u8>)> = (0..n).map(|i| expect_set[set_of(i)].clone().expect("computed")).collect();
    // a spin barrier: all threads leave within a few nanoseconds of each other (a futex-based barrier wakes them one
    // after the other, which hides short race windows)
    let barrier = Arc::new(AtomicUsize::new(0));
    let handles: Vec<_> = (0..n)
        .map(|i| {
            let (b, t, e) = (barrier.clone(), tuples[i].clone(), expect[i].clone());
            std::thread::spawn(move || -> Vec<String> {
                let lib = libs()[t.0];
                let mut out = Vec::new();
                let _ = b.fetch_add(1, Ordering::SeqCst);
                while b.load(Ordering::SeqCst) < n {
                    core::hint::spin_loop();
                }
                // patterns 2, 3: odd threads start with an import (their FIRST call is a deserialisation)
                if pattern >= 2 && i % 2 == 1 {
                    let r = crate::engine::guarded(|| {
                        let a = lib.pk_from_bytes(&e.0).map(|k| k.to_bytes());
                        let b = lib.sk_from_bytes(&e.1).map(|k| k.to_bytes());
                        (a, b)
                    });
                    match r {
                        Err(pi) => out.push(format!("thread {i} set {}: panic {}", lib.p().id, pi.key())),
                        Ok((a, b)) => {
                            if a.as_ref().ok() != Some(&e.0) || b.as_ref().ok() != Some(&e.1) {
                                out.push(format!("thread {i} set {}: import round trip differs (a key deserialised as the first call of a thread does not serialise back to its bytes)", lib.p().id));
                            }
                        }
                    }
                }
                let r = crate::engine::guarded(|| {
                    let (pk, sk) = lib.keygen_from_seed(&t.1);
                    let mut rng = TestRng::replay(&t.3);
                    let sig = sk.sign(&mut rng, &t.2, &[], t.4);
                    let ok = sig.as_ref().map(|s| pk.verify(&t.2, s, &[], t.4)).unwrap_or(false);
                    (pk.to_bytes(), sk.to_bytes(), sig, ok)
                });
                match r {
                    Err(pi) => out.push(format!("thread {i} set {}: panic {}", lib.p().id, pi.key())),
                    Ok((pk, sk, sig, ok)) => {
                        if pk != e.0 || sk != e.1 {
                            out.push(format!("thread {i} set {}: generated keys differ from FIPS 204", lib.p().id));
                        }
                        match sig {
                            Ok(s) if s == e.2 => {}
                            Ok(_) => out.push(format!("thread {i} set {}: signature differs from FIPS 204 Sign", lib.p().id)),
                            Err(er) => out.push(format!("thread {i} set {}: signing failed: {er}", lib.p().id)),
                        }
                        if !ok {
                            out.push(format!("thread {i} set {}: own signature does not verify", lib.p().id));
                        }
                    }
                }
                out
            })
        })
        .collect();
    handles.into_iter().flat_map(|h| h.join().unwrap_or_else(|_| vec!["thread panicked outside the guard".to_string()])).collect()
}

/// Start `vcheck coldstart` in fresh processes; report the first mismatch line accepted by `mine` (each property
/// looks at the call kind it speaks about: key generation C04, signature C03, round-trip verdict C01).
pub fn cold_start(ctx: &Ctx, rep: &mut Report, mine: &[&str]) {
    let sub = "cold_start_concurrent";
    let Ok(exe) = std::env::current_exe() else {
        rep.note(format!("{sub}: cannot locate own executable; skipped"));
        return;
    };
    let runs = ctx.n(400, 3000);
    for r in 0..runs {
        let seed = crate::engine::hash_of(&(ctx.seed, "cold-run", rep.prop.clone(), r));
        match std::process::Command::new(&exe).args(["coldstart", &seed.to_string()]).output() {
            Ok(o) if o.status.success() => {
                let st = rep.stats(sub);
                st.evals(16);
                st.nontrivial_enumerated += 16;
                let lines: Vec<String> = String::from_utf8_lossy(&o.stdout).lines().filter(|l| mine.iter().any(|m| l.contains(m))).map(str::to_string).collect();
                if let Some(l) = lines.first() {
                    if !rep.violations.iter().any(|v| v.sub == sub) {
                        let key: String = l.split(':').nth(1).unwrap_or("mismatch").trim().chars().take(40).collect();
                        rep.violation(sub, Fail::new(format!("cold_start:{}", key.replace(' ', "_")), format!("first library calls of a fresh process, 16 threads released together: {} ({} mismatching line(s))", l, lines.len())), json!({"coldstart_seed": seed}));
                    }
                }
            }
            other => {
                rep.note(format!("{sub}: probe process failed ({:?}); skipped", other.map(|o| o.status)));
                return;
            }
        }
    }
}

pub fn run(ctx: &Ctx, rep: &mut Report) {
    rep.assume(ASSUME_REF);
    rep.assume("private keys whose reference signing loop needs more than 400 iterations are discarded and counted (pathological inconsistent keys); C13 covers their no-panic side");
    let max_msg = if ctx.quick() { 4096 } else { 262_144 };
    run_generated(ctx, rep, "generated", ctx.n(20_000, 200_000), || strategy(max_msg), check);
    let mut ext: Vec<Case> = Vec::new();
    for e in gen::sig_corpus() {
        let (key, msg, rnd) = gen::xofsearch::sig_tuple_specs(e.index);
        ext.push(Case { set: match e.set { 44 => 0, 65 => 1, _ => 2 }, sk: SkSpec::Generated(key), msg, ctx: BytesSpec::empty(), mode: 0, rnd, pre_draw: 1 });
        rep.stats("extreme_signatures").maximum(&format!("max_consecutive_rejections_set{}", e.set), i64::from(e.sib_max_run));
        rep.stats("extreme_signatures").maximum(&format!("max_loop_iterations_set{}", e.set), i64::from(e.iterations));
    }
    crate::engine::run_list(rep, "extreme_signatures", &ext, check);
    // very long messages, every mode
    let mut long: Vec<Case> = Vec::new();
    for (li, len) in LONG_MSG_LENS.iter().enumerate() {
        for mode in 0..4u8 {
            let set = ((li + mode as usize) % 3) as u8;
            if ctx.quick() && *len > (1 << 20) + 168 && mode % 2 == 1 {
                continue;
            }
            let s = crate::engine::hash_of(&(ctx.seed, "c03-long", len, mode));
            long.push(Case { set, sk: SkSpec::Generated(Seed32::Uniform(s % 3)), msg: BytesSpec { len: *len, constant: None, seed: s }, ctx: BytesSpec { len: (s % 4) as u32, constant: None, seed: s ^ 1 }, mode, rnd: Seed32::Uniform(s ^ 2), pre_draw: 1 + (s % 7) as u8 });
        }
    }
    crate::engine::run_list(rep, "long_messages", &long, check);
    cold_start(ctx, rep, &["signature differs", "signing failed", "panic"]);
    crate::props::history::run(ctx, rep, 2500, 60000);
}

pub fn replay(_ctx: &Ctx, sub: &str, case: &Value) -> Option<CheckResult> {
    if sub == "raw_bytes" {
        return crate::fuzzglue::replay_raw("C03", case);
    }
    (sub == "generated" || sub == "extreme_signatures" || sub == "long_messages").then(|| check(&from_case::<Case>(case), &mut Stats::default()))
}
