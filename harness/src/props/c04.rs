//! C04 — key generation is exactly the FIPS 204 function of the 32-byte seed.

use super::*;
use crate::engine::{run_generated, Stats};
use crate::fail;
use crate::gen::{self, Seed32};
use crate::libapi::libs;
use crate::refmodel as rf;
use proptest::prelude::*;
use serde::{Deserialize, Serialize};
use serde_json::json;

#[derive(Clone, Debug, Hash, Serialize, Deserialize)]
pub struct Case {
    pub set: u8,
    pub seed: Seed32,
}

fn strategy() -> impl Strategy<Value = Case> { (0u8..3, gen::seed32()).prop_map(|(set, seed)| Case { set, seed }) }

fn first_diff(a: &[u8], b: &[u8]) -> String {
    if a.len() != b.len() {
        return format!("length {} vs {}", a.len(), b.len());
    }
    match a.iter().zip(b).position(|(x, y)| x != y) {
        Some(i) => format!("first difference at byte {i}: {:02x} vs {:02x}", a[i], b[i]),
        None => "equal".into(),
    }
}

pub fn check(c: &Case, st: &mut Stats) -> CheckResult {
    let lib = libs()[c.set as usize % 3];
    let p = lib.p();
    let xi = c.seed.bytes();
    let mut ks = rf::KeygenStats::default();
    let (rpk, rsk) = rf::keygen_internal_stats(&p, &xi, &mut ks);
    let (pk, sk) = g("keygen_from_seed", || lib.keygen_from_seed(&xi))?;
    let (pkb, skb) = (g("pk.into_bytes", || pk.to_bytes())?, g("sk.into_bytes", || sk.to_bytes())?);
    st.eval();
    st.nontrivial(c);
    st.class(&format!("set{}", p.id));
    st.class_n("rejected_3byte_samples", ks.sample.rej3);
    st.class_n("rejected_half_bytes", ks.sample.rej_half);
    st.class_n("power2round_ties", ks.p2r_ties);
    st.sample(&format!("set{}", p.id), || {
        json!({"set": p.id, "seed": hex::encode(xi), "pk": crate::engine::hex_abbrev(&pkb), "sk": crate::engine::hex_abbrev(&skb),
               "rej3": ks.sample.rej3, "rej_half": ks.sample.rej_half, "p2r_ties": ks.p2r_ties})
    });
    if pkb != rpk {
        fail!(format!("seeded_pk_mismatch:set{}", p.id), "set {}: keygen_from_seed pk differs from FIPS 204 KeyGen_internal: {}", p.id, first_diff(&pkb, &rpk));
    }
    if skb != rsk {
        fail!(format!("seeded_sk_mismatch:set{}", p.id), "set {}: keygen_from_seed sk differs from FIPS 204 KeyGen_internal: {}", p.id, first_diff(&skb, &rsk));
    }
    // RNG-driven variants: trait function and module-level function
    for (which, modfn) in [("KeyGen::try_keygen_with_rng", false), ("try_keygen_with_rng", true)] {
        let mut rng = TestRng::replay(&xi);
        let res = g(which, || if modfn { lib.keygen_with_rng_modfn(&mut rng) } else { lib.keygen_with_rng(&mut rng) })?;
        st.eval();
        let (pk2, sk2) = match res {
            Ok(k) => k,
            Err(e) => fail!(format!("rng_keygen_err:set{}", p.id), "set {}: {which} failed although the RNG delivered 32 bytes ({} requested in {} requests): {e}", p.id, rng.delivered, rng.requests()),
        };
        if rng.delivered != 32 {
            fail!(format!("rng_keygen_drew:set{}", p.id), "set {}: {which} drew {} bytes instead of 32", p.id, rng.delivered);
        }
        let (pk2b, sk2b) = (g("pk.into_bytes", || pk2.to_bytes())?, g("sk.into_bytes", || sk2.to_bytes())?);
        if pk2b != pkb || sk2b != skb {
            fail!(format!("rng_keygen_mismatch:set{}", p.id), "set {}: {which} on RNG bytes xi differs from keygen_from_seed(xi): pk {}, sk {}", p.id, first_diff(&pk2b, &pkb), first_diff(&sk2b, &skb));
        }
    }
    Ok(())
}

pub fn run(ctx: &Ctx, rep: &mut Report) {
    rep.assume(ASSUME_REF);
    rep.assume("seeds whose rejection sampling meets a candidate exactly equal to q, or needs unusually many candidates / bytes, are not constructed but found by an offline SHAKE-only search (corpus/xof_extremes, vcheck xofsearch); the single-coefficient boundary itself is covered by C15 (CoeffFromThreeBytes on all 2^24 inputs)");
    run_generated(ctx, rep, "generated", ctx.n(24_000, 400_000), strategy, check);
    // seeds found by an offline SHAKE-only search: rare sampler events (many rejections in one matrix entry, a
    // candidate equal to q / q-1, also as the last candidate of a SHAKE128 block, extreme RejBoundedPoly lengths)
    let rare: Vec<Case> = rare_seed_cases().into_iter().map(|(set, i)| Case { set, seed: Seed32::RareSampler(i) }).collect();
    crate::engine::run_list(rep, "rare_sampler_seeds", &rare, check);
    rare_seed_maxima(rep.stats("rare_sampler_seeds"));
    crate::props::history::run(ctx, rep, 2500, 60000);
    crate::props::c03::cold_start(ctx, rep, &["generated keys differ", "panic"]);
}

pub fn replay(_ctx: &Ctx, sub: &str, case: &Value) -> Option<CheckResult> {
    if sub == "raw_bytes" {
        return crate::fuzzglue::replay_raw("C04", case);
    }
    (sub == "generated" || sub == "rare_sampler_seeds").then(|| check(&from_case::<Case>(case), &mut Stats::default()))
}
