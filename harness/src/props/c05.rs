//! C05 — any single-bit change invalidates a signature (every bit position per base tuple).

use super::*;
use crate::engine::{hash_of, Stats};
use crate::gen::sigs::{self, ForgeSpec, HKind, HonestSpec, Tuple, ZKind};
use crate::gen::{BytesSpec, Seed32};
use crate::libapi::libs;
use crate::refmodel as rf;
use rayon::prelude::*;
use serde::{Deserialize, Serialize};
use serde_json::json;

#[derive(Clone, Debug, Hash, Serialize, Deserialize)]
pub enum BaseSpec {
    Honest(HonestSpec),
    Forge(ForgeSpec),
}

#[derive(Clone, Debug, Hash, Serialize, Deserialize)]
pub struct Case {
    pub set: u8,
    pub base: BaseSpec,
    /// which object is flipped: 0 signature, 1 public key, 2 message, 3 context
    pub target: u8,
    pub bit: u32,
}

fn build(p: &rf::Params, b: &BaseSpec) -> Tuple {
    match b {
        BaseSpec::Honest(h) => sigs::build_honest(p, h).tuple,
        BaseSpec::Forge(f) => sigs::build_forge(p, f).tuple,
    }
}

fn region(p: &rf::Params, t: &Tuple, target: u8, bit: usize) -> &'static str {
    let byte = bit / 8;
    match target {
        0 => {
            let hoff = p.sig_h_off();
            if byte < p.ctilde_len() {
                "sig:c~"
            } else if byte < hoff {
                "sig:z"
            } else if byte >= hoff + p.omega {
                "sig:hint_count"
            } else {
                let used = t.sig[hoff + p.omega + p.k - 1] as usize;
                if byte - hoff < used {
                    "sig:hint_index"
                } else {
                    "sig:hint_slack"
                }
            }
        }
        1 => {
            if byte < 32 {
                "pk:rho"
            } else {
                "pk:t1"
            }
        }
        2 => "message",
        _ => "ctx",
    }
}

fn flipped(t: &Tuple, target: u8, bit: usize) -> Tuple {
    let mut t = t.clone();
    let v = match target {
        0 => &mut t.sig,
        1 => &mut t.pk,
        2 => &mut t.m,
        _ => &mut t.ctx,
    };
    v[bit / 8] ^= 1 << (bit % 8);
    t
}

pub fn check_flip(libr: &dyn Lib, p: &rf::Params, base: &Tuple, target: u8, bit: usize) -> CheckResult {
    let t = flipped(base, target, bit);
    let v = g_verify_bytes(libr, &t.pk, &t.m, &t.sig, &t.ctx, t.mode)?;
    if v {
        let rv = rf::verify(p, &t.pk, &t.m, &t.sig, &t.ctx, t.mode);
        return Err(Fail::new(
            format!("flip_accepted:set{}:{}", p.id, region(p, base, target, bit)),
            format!(
                "set {} {}: tuple still verifies after flipping bit {} (byte {}, mask {:#04x}) of the {} [region {}]; reference verdict on the flipped tuple: {}",
                p.id, base.mode.tag(), bit, bit / 8, 1u8 << (bit % 8), ["signature", "public key", "message", "context"][target as usize % 4],
                region(p, base, target, bit), rv.tag()
            ),
        ));
    }
    Ok(())
}

/// The tuple the flips start from. C05 speaks about tuples that verify: normally the reference-built one;
/// if the library rejects that (a C02 / C03 matter, judged there), an honest base is re-made with the
/// library's own signer so that the flips still test something; otherwise the base is skipped and counted.
fn usable_base(libr: &dyn Lib, p: &rf::Params, base: &BaseSpec, st: &mut Stats) -> Result<Option<Tuple>, Fail> {
    let t = build(p, base);
    assert!(rf::verify(p, &t.pk, &t.m, &t.sig, &t.ctx, t.mode).accepted(), "harness: reference rejects a C05 base tuple");
    if g_verify_bytes(libr, &t.pk, &t.m, &t.sig, &t.ctx, t.mode)? {
        return Ok(Some(t));
    }
    if let BaseSpec::Honest(h) = base {
        let (pk, sk) = g("keygen_from_seed", || libr.keygen_from_seed(&h.key.bytes()))?;
        let mut rng = TestRng::replay(&h.rnd.bytes());
        if let Ok(Ok(sig)) = g_sign(&*sk, &mut rng, &t.m, &t.ctx, t.mode) {
            let lt = Tuple { pk: g("pk.into_bytes", || pk.to_bytes())?, sig, ..t.clone() };
            if g_verify_bytes(libr, &lt.pk, &lt.m, &lt.sig, &lt.ctx, lt.mode)? {
                st.class("base:re-made with the library's signer (library rejects the FIPS 204 tuple; judged by C02/C03)");
                return Ok(Some(lt));
            }
        }
    }
    st.class("base:skipped (library rejects the FIPS 204 tuple; judged by C02)");
    Ok(None)
}

fn bases(ctx: &Ctx) -> Vec<(u8, BaseSpec, &'static str)> {
    let mut out = Vec::new();
    let per_set = ctx.n(6, 24) as u64;
    for set in 0..3u8 {
        for i in 0..per_set {
            let s = hash_of(&(ctx.seed, "c05-base", set, i));
            let msg = BytesSpec { len: [0u32, 1, 33, 137, 256][(s % 5) as usize], constant: None, seed: s };
            let cx = BytesSpec { len: [0u32, 1, 17, 255][((s >> 8) % 4) as usize], constant: None, seed: s ^ 5 };
            let mode = ((s >> 16) % 4) as u8;
            match i % 6 {
                0 => out.push((set, BaseSpec::Honest(HonestSpec { key: Seed32::Uniform(s), msg, ctx: cx, mode: 0, rnd: Seed32::Uniform(s ^ 9) }), "honest:pure")),
                1 => out.push((set, BaseSpec::Honest(HonestSpec { key: Seed32::Uniform(s), msg, ctx: cx, mode: 1 + (mode % 3), rnd: Seed32::Uniform(s ^ 9) }), "honest:hash")),
                2 => out.push((
                    set,
                    BaseSpec::Forge(ForgeSpec { rho: Seed32::Uniform(s), seed: s, zkind: ZKind::Uniform, plants: vec![], hkind: HKind::Full, msg, ctx: cx, mode }),
                    "forged:hint_weight=omega",
                )),
                3 => out.push((
                    set,
                    BaseSpec::Forge(ForgeSpec { rho: Seed32::Uniform(s), seed: s, zkind: ZKind::Uniform, plants: vec![], hkind: HKind::Weight(8 + (s >> 24) as u8 % 24), msg, ctx: cx, mode }),
                    "forged:hint_weight_small(polynomials without hints)",
                )),
                4 => out.push((
                    set,
                    BaseSpec::Forge(ForgeSpec { rho: Seed32::Uniform(s), seed: s, zkind: ZKind::Uniform, plants: vec![], hkind: HKind::AllInPoly((s >> 32) as u8), msg, ctx: cx, mode }),
                    "forged:all_hints_in_one_polynomial",
                )),
                _ => out.push((
                    set,
                    BaseSpec::Forge(ForgeSpec { rho: Seed32::Uniform(s), seed: s, zkind: ZKind::Small, plants: vec![], hkind: HKind::Empty, msg, ctx: BytesSpec { len: 255, constant: None, seed: s ^ 7 }, mode }),
                    "forged:no_hints:ctx255",
                )),
            }
        }
    }
    out
}

pub fn run(ctx: &Ctx, rep: &mut Report) {
    rep.assume(ASSUME_REF);
    rep.assume("an accepted flip would exhibit a SHAKE256 collision or a non-canonical encoding; every flip is expected to be rejected");
    let sub = "all_bit_flips";
    for (set, base, class) in bases(ctx) {
        let libr = libs()[set as usize];
        let p = libr.p();
        let mut bst = Stats::default();
        let t = match usable_base(libr, &p, &base, &mut bst) {
            Ok(Some(t)) => t,
            Ok(None) => {
                rep.stats(sub).merge(bst);
                continue;
            }
            Err(f) => {
                rep.violation(sub, f, serde_json::to_value(Case { set, base: base.clone(), target: 0, bit: u32::MAX }).expect("ser"));
                continue;
            }
        };
        rep.stats(sub).merge(bst);
        let targets: Vec<(u8, usize)> = [(0u8, t.sig.len() * 8), (1, t.pk.len() * 8), (2, t.m.len() * 8), (3, t.ctx.len() * 8)]
            .iter()
            .flat_map(|&(tg, n)| (0..n).map(move |b| (tg, b)))
            .collect();
        let results: Vec<(Stats, Option<(u8, usize, Fail)>)> = targets
            .par_chunks(2048)
            .map(|chunk| {
                let mut st = Stats::default();
                let mut bad = None;
                for &(tg, bit) in chunk {
                    st.eval();
                    st.class(region(&p, &t, tg, bit));
                    st.nontrivial_enumerated += 1;
                    if let Err(f) = check_flip(libr, &p, &t, tg, bit) {
                        if bad.is_none() {
                            bad = Some((tg, bit, f));
                        }
                    }
                }
                (st, bad)
            })
            .collect();
        for (st, bad) in results {
            rep.stats(sub).merge(st);
            if let Some((tg, bit, f)) = bad {
                if !rep.violations.iter().any(|v| v.sub == sub && v.key == f.key) {
                    rep.violation(sub, f, serde_json::to_value(Case { set, base: base.clone(), target: tg, bit: bit as u32 }).expect("ser"));
                }
            }
        }
        let st = rep.stats(sub);
        st.class(&format!("base:{class}"));
        st.sample(&format!("base:set{}:{class}", p.id), || {
            json!({"set": p.id, "class": class, "mode": t.mode.tag(), "msg_len": t.m.len(), "ctx_len": t.ctx.len(), "sig_bits": t.sig.len() * 8, "pk_bits": t.pk.len() * 8,
                   "hint_bytes_used": t.sig[p.sig_h_off() + p.omega + p.k - 1], "sig": crate::engine::hex_abbrev(&t.sig)})
        });
    }
    let _ = rep.exhaustive.insert(sub.to_string(), false);
    rep.note("every bit position of every base tuple was flipped (exhaustive per tuple; base tuples are sampled)");
    long_messages(ctx, rep);
}

/// Long messages at block-structure lengths (multiples of the pre-hash block sizes and of their common
/// multiples, powers of two, one less / one more): message bits at both ends and on a stride are flipped.
fn long_messages(ctx: &Ctx, rep: &mut Report) {
    let sub = "long_message_flips";
    let mut lens: Vec<u32> = crate::gen::MSG_LENS.iter().copied().filter(|l| *l >= 1000).collect();
    lens.extend(crate::props::c03::LONG_MSG_LENS);
    let mut cases: Vec<Case> = Vec::new();
    for set in 0..3u8 {
        for (li, len) in lens.iter().enumerate() {
            for mode in 0..4u8 {
                if ctx.quick() && (li + usize::from(mode) + usize::from(set)) % 2 == 1 && mode == 0 {
                    continue; // quick tier: half of the pure-mode tuples
                }
                if *len >= 65_535 && (li + usize::from(set)) % 3 != 0 {
                    continue; // very long messages: one parameter set per length
                }
                if ctx.quick() && *len > (1 << 20) + 168 && mode % 2 == 1 {
                    continue;
                }
                let s = hash_of(&(ctx.seed, "c05-long", set, len, mode));
                let base = BaseSpec::Honest(HonestSpec { key: Seed32::Uniform(s % 4), msg: BytesSpec { len: *len, constant: None, seed: s }, ctx: BytesSpec { len: (s % 3) as u32, constant: None, seed: s ^ 1 }, mode, rnd: Seed32::Uniform(s ^ 2) });
                cases.push(Case { set, base, target: 2, bit: 0 });
            }
        }
    }
    let results: Vec<(Stats, Option<(Case, Fail)>)> = cases
        .par_iter()
        .map(|c| {
            let mut st = Stats::default();
            let libr = libs()[c.set as usize];
            let p = libr.p();
            let t = match usable_base(libr, &p, &c.base, &mut st) {
                Ok(Some(t)) => t,
                Ok(None) => return (st, None),
                Err(f) => return (st, Some((Case { bit: u32::MAX, ..c.clone() }, f))),
            };
            let nbits = t.m.len() * 8;
            let mut bits: Vec<usize> = if nbits >= 8 * 65_535 {
                // very long messages: both ends, the bits around 2^16 / 2^20 / 2^24 bytes, and a coarse stride
                let marks = [1usize << 19, 1 << 23, 1 << 27];
                (0..8).chain(nbits - 32..nbits).chain(marks.iter().flat_map(|m| [m - 1, *m, m + 7]).filter(|b| *b < nbits)).chain((0..nbits).step_by(nbits / 8 + 1)).collect()
            } else {
                (0..64.min(nbits)).chain(nbits.saturating_sub(512)..nbits).chain((0..nbits).step_by(97)).collect()
            };
            bits.sort_unstable();
            bits.dedup();
            st.class(&format!("msg_len={}", t.m.len()));
            for b in bits {
                st.eval();
                st.nontrivial_enumerated += 1;
                if let Err(f) = check_flip(libr, &p, &t, 2, b) {
                    return (st, Some((Case { bit: b as u32, ..c.clone() }, Fail { key: format!("{}:long_message", f.key), what: format!("|M| = {}: {}", t.m.len(), f.what) })));
                }
            }
            (st, None)
        })
        .collect();
    for (st, bad) in results {
        rep.stats(sub).merge(st);
        if let Some((c, f)) = bad {
            if !rep.violations.iter().any(|v| v.sub == sub && v.key == f.key) {
                rep.violation(sub, f, serde_json::to_value(c).expect("ser"));
            }
        }
    }
}

pub fn replay(_ctx: &Ctx, sub: &str, case: &Value) -> Option<CheckResult> {
    if sub != "all_bit_flips" && sub != "long_message_flips" {
        return None;
    }
    let c: Case = from_case(case);
    let libr = libs()[c.set as usize % 3];
    let p = libr.p();
    let t = match usable_base(libr, &p, &c.base, &mut Stats::default()) {
        Ok(Some(t)) => t,
        Ok(None) => return Some(Ok(())),
        Err(f) => return Some(Err(f)),
    };
    if c.bit == u32::MAX {
        return Some(Ok(()));
    }
    Some(check_flip(libr, &p, &t, c.target, c.bit as usize))
}
