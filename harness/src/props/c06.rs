//! C06 — signatures are bound to context, mode and pre-hash function (metamorphic).

use super::*;
use crate::engine::{run_generated, Stats};
use crate::fail;
use crate::gen::{self, BytesSpec, Seed32};
use crate::libapi::libs;
use crate::refmodel::{self as rf, MODES};
use proptest::prelude::*;
use serde::{Deserialize, Serialize};
use serde_json::json;

#[derive(Clone, Debug, Hash, Serialize, Deserialize)]
pub struct Case {
    pub set: u8,
    pub key: Seed32,
    pub msg: BytesSpec,
    pub ctx: BytesSpec,
    pub mode: u8,
    pub rnd: Seed32,
}

fn strategy() -> impl Strategy<Value = Case> {
    (0u8..3, gen::seed32(), gen::message(400), gen::context(), gen::mode(), gen::seed32())
        .prop_map(|(set, key, msg, ctx, mode, rnd)| Case { set, key, msg, ctx, mode, rnd })
}

pub fn check(c: &Case, st: &mut Stats) -> CheckResult {
    let libr = libs()[c.set as usize % 3];
    let p = libr.p();
    let (m, ctx, mode, rnd) = (c.msg.bytes(), c.ctx.bytes(), gen::mode_of(c.mode), c.rnd.bytes());
    let (pk, sk) = g("keygen_from_seed", || libr.keygen_from_seed(&c.key.bytes()))?;
    let mut rng = TestRng::replay(&rnd);
    let sig = match g_sign(&*sk, &mut rng, &m, &ctx, mode) {
        Ok(Ok(s)) => s,
        Ok(Err(e)) => fail!("sign:err", "set {}: signing failed: {e}", p.id),
        Err(pi) => return Err(Fail::panic("sign", &pi)),
    };
    st.eval();
    if !g_verify(&*pk, &m, &sig, &ctx, mode)? {
        fail!(format!("original_rejected:set{}", p.id), "set {} {}: the original (M, ctx, mode) does not verify", p.id, mode.tag());
    }
    let tag = format!("set{}:{}", p.id, mode.tag());
    let alt = |name: &str, am: &[u8], actx: &[u8], amode: Mode, nontrivial: bool, st: &mut Stats| -> CheckResult {
        if am == m.as_slice() && actx == ctx.as_slice() && amode == mode {
            return Ok(());
        }
        st.eval();
        st.class(&format!("alt:{name}"));
        if nontrivial {
            st.nontrivial(&(c, name, am.len(), actx.len(), amode));
        }
        if g_verify(&*pk, am, &sig, actx, amode)? {
            return Err(Fail::new(
                format!("alt_accepted:{name}"),
                format!(
                    "{tag}: signature for (|M|={}, |ctx|={}, {}) also verifies for alternative '{name}' (|M'|={}, |ctx'|={}, {})",
                    m.len(), ctx.len(), mode.tag(), am.len(), actx.len(), amode.tag()
                ),
            ));
        }
        Ok(())
    };
    // 1. every other split of ctx || M (same mode): same concatenated bytes
    let concat: Vec<u8> = ctx.iter().chain(m.iter()).copied().collect();
    // (splits that put more than 255 bytes into the context are "other splits" too: they must be rejected)
    for j in 0..=concat.len().min(300) {
        if j != ctx.len() {
            alt(if j > 255 { "resplit_ctx>255" } else { "resplit" }, &concat[j..], &concat[..j], mode, true, st)?;
        }
    }
    // 2. bytes moved across the other ends (rotation of the boundary bytes)
    if !ctx.is_empty() {
        let mut m2 = m.clone();
        m2.push(ctx[0]);
        alt("ctx_head_to_msg_tail", &m2, &ctx[1..], mode, false, st)?;
    }
    if !m.is_empty() && ctx.len() < 255 {
        let mut c2 = vec![m[m.len() - 1]];
        c2.extend_from_slice(&ctx);
        alt("msg_tail_to_ctx_head", &m[..m.len() - 1], &c2, mode, false, st)?;
    }
    // 3. the other mode on a message crafted to mimic the formatted input
    for ph in [Mode::Sha256, Mode::Sha512, Mode::Shake128] {
        let (oid, phm) = rf::prehash(ph, &m);
        let mimic: Vec<u8> = oid.iter().chain(phm.iter()).copied().collect();
        if mode == Mode::Pure {
            // pure signature over M; hash_verify over any M'' such that OID||PH(M'') = M is infeasible,
            // so the feasible direction is: was `m` itself of the mimic shape? (covered when mode != pure below)
            alt(&format!("pure_sig_under_{}", ph.tag()), &m, &ctx, ph, false, st)?;
        } else if mode == ph {
            // hash signature over (M, PH): formatted input = 01||len||ctx||OID||PH(M). Pure verify of
            // M'' = OID||PH(M) hashes 00||len||ctx||OID||PH(M): differs in the domain byte only.
            alt("hash_sig_as_pure_mimic", &mimic, &ctx, Mode::Pure, true, st)?;
            // shifted: ctx'' = ctx || OID-prefix, M'' = rest (same bytes after the header)
            if ctx.len() + 4 <= 255 {
                let mut c2 = ctx.clone();
                c2.extend_from_slice(&mimic[..4]);
                alt("hash_sig_as_pure_mimic_shifted", &mimic[4..], &c2, Mode::Pure, false, st)?;
            }
            alt("hash_sig_as_pure_same_msg", &m, &ctx, Mode::Pure, false, st)?;
        }
    }
    // 3b. header look-alikes: for a hash-mode signature, every string obtained from the formatted input
    // 01 || len || ctx || OID || PH(M) by swapping / dropping the two header bytes, re-read as a pure-mode
    // input 00 || len' || ctx' || M'. A formatting slip shared by signer and verifier in one mode only
    // (header bytes swapped, domain or length byte missing) makes one of these verify.
    if mode != Mode::Pure {
        let (oid, phm) = rf::prehash(mode, &m);
        let body: Vec<u8> = ctx.iter().chain(oid.iter()).chain(phm.iter()).copied().collect();
        let (dom, len) = (1u8, ctx.len() as u8);
        let headers: [&[u8]; 7] = [&[len, dom], &[len], &[dom], &[], &[0, len], &[len, 0], &[0]];
        for (hi, hd) in headers.iter().enumerate() {
            let sbytes: Vec<u8> = hd.iter().chain(body.iter()).copied().collect();
            if sbytes.len() >= 2 && sbytes[0] == 0 {
                let l2 = sbytes[1] as usize;
                if sbytes.len() >= 2 + l2 {
                    alt(&format!("hash_sig_header_lookalike_{hi}"), &sbytes[2 + l2..], &sbytes[2..2 + l2], Mode::Pure, true, st)?;
                }
            }
        }
    }
    if mode == Mode::Pure {
        // the reverse mimic: sign (pure) the string OID||PH(X) for X = m, then hash_verify X
        for ph in [Mode::Sha256, Mode::Sha512, Mode::Shake128] {
            let (oid, phm) = rf::prehash(ph, &m);
            let mimic: Vec<u8> = oid.iter().chain(phm.iter()).copied().collect();
            let mut rng = TestRng::replay(&rnd);
            if let Ok(Ok(sig2)) = g_sign(&*sk, &mut rng, &mimic, &ctx, Mode::Pure) {
                st.eval();
                st.class("alt:pure_mimic_sig_under_hash_verify");
                st.nontrivial(&(c, "pure_mimic", ph));
                if g_verify(&*pk, &m, &sig2, &ctx, ph)? {
                    fail!("alt_accepted:pure_mimic_sig_under_hash_verify", "{tag}: pure signature over OID||{}(M) verifies under hash_verify(M, {})", ph.tag(), ph.tag());
                }
            }
        }
    }
    // 3c. cross-format confusion: the formatted input itself presented as a pure-mode message with an
    // empty context (a verifier that also tries the bare-message form would accept), and single-byte
    // changes at either end of context and message
    {
        let fm = rf::format_message(mode, &m, &ctx);
        alt("formatted_input_as_message_empty_ctx", &fm, &[], Mode::Pure, true, st)?;
        if !ctx.is_empty() {
            let mut c2 = ctx.clone();
            let n = c2.len();
            c2[n - 1] ^= 1;
            alt("ctx_last_byte_changed", &m, &c2, mode, n >= 254, st)?;
            let mut c3 = ctx.clone();
            c3[0] ^= 0x80;
            alt("ctx_first_byte_changed", &m, &c3, mode, false, st)?;
        }
        if !m.is_empty() {
            let mut m2 = m.clone();
            let n = m2.len();
            m2[n - 1] ^= 1;
            alt("msg_last_byte_changed", &m2, &ctx, mode, false, st)?;
        }
    }
    // 3d. the digest in place of the message: a front-end that accepts "already hashed" input of digest
    // length would verify the signature for M also for the message PH(M) (and the OID-prefixed digest)
    for ph in [Mode::Sha256, Mode::Sha512, Mode::Shake128] {
        let (oid, phm) = rf::prehash(ph, &m);
        for vm in MODES {
            alt(&format!("digest_{}_as_message", ph.tag()), &phm, &ctx, vm, ph == mode && vm == mode, st)?;
        }
        let mimic: Vec<u8> = oid.iter().chain(phm.iter()).copied().collect();
        if mode != Mode::Pure {
            alt(&format!("oid_digest_{}_as_message", ph.tag()), &mimic, &ctx, mode, false, st)?;
        }
    }
    // 4. every other pre-hash function / mode
    for other in MODES {
        if other != mode {
            alt(&format!("other_mode:{}->{}", mode.tag(), other.tag()), &m, &ctx, other, mode != Mode::Pure && other != Mode::Pure, st)?;
        }
    }
    // 5. length-prefix look-alikes: the length byte moved into the context / message
    {
        let mut c2 = vec![ctx.len() as u8];
        c2.extend_from_slice(&ctx);
        alt("len_byte_inside_ctx", &m, &c2, mode, false, st)?;
        let mut m2 = vec![ctx.len() as u8];
        m2.extend_from_slice(&concat);
        alt("empty_ctx_len_byte_in_msg", &m2, &[], mode, false, st)?;
        alt("empty_ctx_concat_msg", &concat, &[], mode, true, st)?;
    }
    st.class(&tag);
    st.sample(&tag, || json!({"set": p.id, "mode": mode.tag(), "msg_len": m.len(), "ctx_len": ctx.len(), "seed": hex::encode(c.key.bytes())}));
    Ok(())
}

pub fn run(ctx: &Ctx, rep: &mut Report) {
    rep.assume("signatures are produced by the library itself (try_*_with_rng with a replayed RNG) and judged by the library's verifier: a formatting defect shared by both sides shows up as an accepted alternative; C03 independently compares the bytes with the reference");
    run_generated(ctx, rep, "generated", ctx.n(3000, 40_000), strategy, check);
    // very long messages (>= 64 KiB, >= 1 MiB): the same battery of alternatives
    let mut long: Vec<Case> = Vec::new();
    for (li, len) in crate::props::c03::LONG_MSG_LENS.iter().enumerate() {
        if *len > (1 << 20) + 168 && ctx.quick() {
            continue;
        }
        for mode in 0..4u8 {
            if (li + mode as usize) % 2 == 1 && ctx.quick() && mode != 0 {
                continue;
            }
            let s = crate::engine::hash_of(&(ctx.seed, "c06-long", len, mode));
            long.push(Case { set: ((li + mode as usize) % 3) as u8, key: Seed32::Uniform(s % 3), msg: BytesSpec { len: *len, constant: None, seed: s }, ctx: BytesSpec { len: 1 + (s % 12) as u32, constant: None, seed: s ^ 1 }, mode, rnd: Seed32::Uniform(s ^ 2) });
        }
    }
    crate::engine::run_list(rep, "long_messages", &long, check);
}

pub fn replay(_ctx: &Ctx, sub: &str, case: &Value) -> Option<CheckResult> {
    (sub == "generated" || sub == "long_messages").then(|| check(&from_case::<Case>(case), &mut Stats::default()))
}
