//! C07 — the 255-byte context limit is enforced without aliasing (exhaustive in the length).

use super::*;
use crate::engine::{run_sweep, Stats};
use crate::fail;
use crate::gen;
use crate::libapi::libs;
use crate::refmodel as rf;
use serde::{Deserialize, Serialize};
use serde_json::json;

#[derive(Clone, Debug, Hash, Serialize, Deserialize)]
pub struct Case {
    pub set: u8,
    pub len: u32,
    /// 0 pure, 1..3 pre-hash
    pub mode: u8,
    pub seed: u64,
    /// content class of the context: 0 position-dependent pseudo-random bytes, 1..3 valid UTF-8 made of 2- / 3- /
    /// 4-byte characters (fewer characters than bytes), 4 printable ASCII
    #[serde(default)]
    pub content: u8,
}

fn lengths(ctx: &Ctx) -> Vec<u32> {
    let mut v: Vec<u32> = if ctx.quick() { (0..=1100).collect() } else { (0..=4096).collect() };
    v.extend([65_535, 65_536, 65_537, 65_791, 70_000, 131_072, 131_073]);
    if !ctx.quick() {
        let mut n = 4096 + 257;
        while n < 66_000 {
            v.push(n);
            n += 257;
        }
    }
    v
}

fn ctx_bytes(len: u32, seed: u64, content: u8) -> Vec<u8> {
    // position-dependent, never all-equal, so that truncations and wraps are distinguishable
    let r = gen::prg_bytes(seed ^ u64::from(len), "c07-ctx", 64);
    let len = len as usize;
    match content % 5 {
        0 => (0..len).map(|i| r[i % 64] ^ (i / 64) as u8).collect(),
        4 => (0..len).map(|i| 0x20 + (r[i % 64] ^ (i / 64) as u8) % 95).collect(),
        c => {
            // text: characters of c+1 bytes each (varying code points), padded with ASCII to the exact byte length
            let mut out = String::new();
            let mut i = 0usize;
            while out.len() + (c as usize + 1) <= len {
                let v = u32::from(r[i % 64] ^ (i / 64) as u8);
                let ch = match c {
                    1 => char::from_u32(0xC0 + v % 0x100).unwrap_or('\u{e9}'),  // U+00C0..U+01BF: 2 bytes
                    2 => char::from_u32(0x20A0 + v).unwrap_or('\u{20ac}'),     // U+20A0..: 3 bytes
                    _ => char::from_u32(0x1F600 + v % 0x40).unwrap_or('\u{1f600}'), // emoticons: 4 bytes
                };
                out.push(ch);
                i += 1;
            }
            let mut b = out.into_bytes();
            while b.len() < len {
                b.push(b'a' + (b.len() % 26) as u8);
            }
            b
        }
    }
}

pub fn check(c: &Case, st: &mut Stats) -> CheckResult {
    let libr = libs()[c.set as usize % 3];
    let p = libr.p();
    let mode = gen::mode_of(c.mode);
    let xi = gen::prg_bytes(c.seed, "c07-key", 32);
    let xi: [u8; 32] = core::array::from_fn(|i| xi[i]);
    let (pk, sk) = g("keygen_from_seed", || libr.keygen_from_seed(&xi))?;
    let (_, rsk) = rf::keygen_internal(&p, &xi);
    let m = gen::prg_bytes(c.seed ^ 0x55, "c07-msg", 1 + (c.len as usize % 40));
    let ctx = ctx_bytes(c.len, c.seed, c.content);
    let rnd = [0x3Cu8; 32];
    let tag = format!("set{}:{}", p.id, mode.tag());
    st.eval();
    if c.len <= 255 {
        let mut rng = TestRng::replay(&rnd);
        let sig = match g_sign(&*sk, &mut rng, &m, &ctx, mode) {
            Ok(Ok(s)) => s,
            Ok(Err(e)) => fail!(format!("short_ctx_sign_err:{tag}"), "{tag}: signing with a context of {} bytes failed: {e}", c.len),
            Err(pi) => return Err(Fail::panic("sign", &pi)),
        };
        if !g_verify(&*pk, &m, &sig, &ctx, mode)? {
            fail!(format!("short_ctx_verify_false:{tag}"), "{tag}: signature with a context of {} bytes does not verify", c.len);
        }
        st.class("len<=255");
        if c.len >= 254 {
            st.nontrivial(c);
        }
        return Ok(());
    }
    // ---- len > 255 ----
    st.class("len>255");
    st.class(["len>255:ctx=pseudo-random bytes", "len>255:ctx=UTF-8 text of 2-byte characters", "len>255:ctx=UTF-8 text of 3-byte characters", "len>255:ctx=UTF-8 text of 4-byte characters", "len>255:ctx=printable ASCII"][c.content as usize % 5]);
    // signing must fail on every entry point
    let mut rng = TestRng::replay(&rnd);
    match g_sign(&*sk, &mut rng, &m, &ctx, mode) {
        Ok(Err(_)) => {}
        Ok(Ok(_)) => fail!(format!("long_ctx_signed:{tag}"), "{tag}: signing returned a signature for a context of {} bytes", c.len),
        Err(pi) => return Err(Fail::panic("sign", &pi)),
    }
    if rng.requests() > 0 {
        st.class("rng_touched_before_ctx_guard");
    }
    // ... also when the caller's generator fails (an error path must not bypass the guard)
    for faults in [vec![crate::libapi::Fault::ErrBefore], vec![crate::libapi::Fault::ErrAfter(16)], vec![crate::libapi::Fault::None, crate::libapi::Fault::ErrBefore]] {
        for infallible_panics in [false, true] {
            let mut rng = TestRng::with_faults(&rnd, faults.clone(), infallible_panics);
            match g_sign(&*sk, &mut rng, &m, &ctx, mode) {
                Ok(Err(_)) => {}
                Ok(Ok(_)) => fail!(format!("long_ctx_signed_with_failing_rng:{tag}"), "{tag}: signing returned a signature for a context of {} bytes when the caller's generator fails ({faults:?})", c.len),
                Err(pi) if pi.msg.contains("TestRng: infallible") => st.class("infallible_rng_method_used(judged by C12)"),
                Err(pi) => return Err(Fail::panic("sign (failing rng, long ctx)", &pi)),
            }
        }
    }
    st.class("len>255:failing_rng_variants");
    match g("try_sign(os rng)", || sk.sign_os(&m, &ctx, mode))? {
        Err(_) => {}
        Ok(_) => fail!(format!("long_ctx_signed_os:{tag}"), "{tag}: try_sign/try_hash_sign (OS RNG) returned a signature for a context of {} bytes", c.len),
    }
    if mode == Mode::Pure {
        match g("_internal_sign", || sk.internal_sign(&m, &ctx, rnd))? {
            Err(_) => {}
            Ok(_) => fail!(format!("long_ctx_internal_signed:set{}", p.id), "set {}: _internal_sign returned a signature for a context of {} bytes", p.id, c.len),
        }
    }
    // verification must be false for: random signature, honest signature for the truncated context,
    // and the alias signature (what a verifier that wraps the length byte would accept)
    let r = (c.len % 256) as usize;
    let rand_sig = gen::prg_bytes(c.seed ^ u64::from(c.len), "c07-sig", p.sig_len);
    if g_verify(&*pk, &m, &rand_sig, &ctx, mode)? {
        fail!(format!("long_ctx_verified_random:{tag}"), "{tag}: random signature verifies with a context of {} bytes", c.len);
    }
    let short = &ctx[..r];
    let (trunc_sig, _) = rf::sign(&p, &rsk, &m, short, mode, &rnd, 100_000).expect("reference sign");
    if g_verify(&*pk, &m, &trunc_sig, &ctx, mode)? {
        fail!(format!("long_ctx_verified_truncated:{tag}"), "{tag}: honest signature for ctx[..{r}] verifies with the full context of {} bytes (truncation)", c.len);
    }
    // first 255 bytes (saturation rather than wrap)
    let (sat_sig, _) = rf::sign(&p, &rsk, &m, &ctx[..255], mode, &rnd, 100_000).expect("reference sign");
    if g_verify(&*pk, &m, &sat_sig, &ctx, mode)? {
        fail!(format!("long_ctx_verified_saturated:{tag}"), "{tag}: honest signature for ctx[..255] verifies with the full context of {} bytes", c.len);
    }
    // alias: sign exactly the string a wrapping verifier would hash
    let mut m_prime = vec![u8::from(mode != Mode::Pure), r as u8];
    m_prime.extend_from_slice(&ctx);
    if mode == Mode::Pure {
        m_prime.extend_from_slice(&m);
    } else {
        let (oid, phm) = rf::prehash(mode, &m);
        m_prime.extend_from_slice(&oid);
        m_prime.extend_from_slice(&phm);
    }
    let (alias_sig, _) = rf::sign_internal(&p, &rsk, &m_prime, &rnd, 100_000).expect("reference sign_internal");
    if mode == Mode::Pure {
        // sanity + non-triviality: the alias signature is a valid signature for the short context
        let mut m_alias = ctx[r..].to_vec();
        m_alias.extend_from_slice(&m);
        let ok = g_verify(&*pk, &m_alias, &alias_sig, short, Mode::Pure)?;
        if ok {
            st.class("alias_verifies_for_short_ctx");
            st.nontrivial(c);
        } else {
            fail!(format!("alias_base_rejected:{tag}"), "{tag}: the alias signature does not verify for its short context (|ctx'|={r})");
        }
    } else {
        st.class("alias_signed_by_reference_on_wrapped_string");
        st.nontrivial(c);
    }
    if g_verify(&*pk, &m, &alias_sig, &ctx, mode)? {
        fail!(format!("long_ctx_alias_accepted:{tag}"), "{tag}: a signature for the {r}-byte context is accepted with a {}-byte context (length reduced modulo 256)", c.len);
    }
    Ok(())
}

pub fn run(ctx: &Ctx, rep: &mut Report) {
    rep.assume(ASSUME_REF);
    rep.assume("whether the RNG is touched before the context guard is recorded (class rng_touched_before_ctx_guard), not judged");
    let lens = lengths(ctx);
    let seed = ctx.seed;
    let n = lens.len() as u64 * 3 * 2;
    let case_of = |i: u64| -> Case {
        let len = lens[(i / 6) as usize];
        let set = ((i % 6) / 2) as u8;
        let mode = if i % 2 == 0 { 0 } else { 1 + (len % 3) as u8 };
        let content = if len > 255 { ((len + u32::from(set)) % 5) as u8 } else { (len % 2) as u8 * 4 };
        Case { set, len, mode, seed: crate::engine::hash_of(&(seed, "c07", set)), content }
    };
    run_sweep(rep, "all_lengths", n, false, |i, st| {
        let c = case_of(i);
        let r = check(&c, st);
        if c.len % 97 == 0 {
            st.sample(&format!("set{}", [44, 65, 87][c.set as usize]), || json!({"set": c.set, "ctx_len": c.len, "mode": gen::mode_of(c.mode).tag()}));
        }
        r
    }, |i| serde_json::to_value(case_of(i)).expect("ser"));
    huge_messages(ctx, rep);
    rep.note(format!("context lengths enumerated: 0..={} plus {:?}", if ctx.quick() { 1100 } else { 4096 }, &lens[lens.len().saturating_sub(7)..]));
}

#[derive(Clone, Debug, Hash, Serialize, Deserialize)]
pub struct HugeCase {
    pub set: u8,
    pub mode: u8,
    pub msg_len: u64,
    pub ctx_len: u32,
}

/// Over-long context together with a message so long that a 32-bit count of the formatted input (in bits:
/// 2^29 bytes; in bytes: 2^32) wraps. One shared zero-filled buffer; on a correct library every call returns at once.
fn huge_messages(ctx: &Ctx, rep: &mut Report) {
    let sub = "huge_message_long_ctx";
    let mut lens: Vec<u64> = vec![(1 << 29) - 100, (1 << 29) - 302, 1 << 29, (1 << 29) + 7];
    if !ctx.quick() {
        lens.extend([(1u64 << 32) - 200, (1u64 << 32) - 302, 1u64 << 32]);
    }
    let max = *lens.iter().max().expect("non-empty") as usize;
    let mut buf = vec![0u8; max];
    buf[0] = 1;
    let sets: &[u8] = if ctx.quick() { &[0] } else { &[0, 1, 2] };
    for &set in sets {
        let libr = libs()[set as usize];
        let p = libr.p();
        let (pk, sk) = match g("keygen_from_seed", || libr.keygen_from_seed(&[0x33; 32])) {
            Ok(k) => k,
            Err(f) => {
                rep.violation(sub, f, json!({"set": set}));
                return;
            }
        };
        for &n in &lens {
            for mode in [0u8, 1 + (n % 3) as u8] {
                let md = gen::mode_of(mode);
                for ctx_len in [300u32, 256] {
                    let c = HugeCase { set, mode, msg_len: n, ctx_len };
                    let cx = ctx_bytes(ctx_len, n, 0);
                    let m = &buf[..n as usize];
                    let _wd = crate::engine::watch(|| format!("C07/{sub}: {c:?}"));
                    let st = rep.stats(sub);
                    st.eval();
                    st.nontrivial_enumerated += 1;
                    st.class(&format!("msg_len={n}"));
                    let mut rng = TestRng::replay(&[0x3C; 32]);
                    let r: CheckResult = (|| {
                        match g_sign(&*sk, &mut rng, m, &cx, md) {
                            Ok(Err(_)) => {}
                            Ok(Ok(_)) => return Err(Fail::new(format!("long_ctx_signed_huge_message:set{}:{}", p.id, md.tag()), format!("set {} {}: signing returned a signature for a context of {ctx_len} bytes with a message of {n} bytes", p.id, md.tag()))),
                            Err(pi) => return Err(Fail::panic("sign (huge message, long ctx)", &pi)),
                        }
                        if g_verify(&*pk, m, &vec![0x5A; p.sig_len], &cx, md)? {
                            return Err(Fail::new(format!("long_ctx_verified_huge_message:set{}", p.id), format!("set {}: a junk signature verifies with a context of {ctx_len} bytes and a message of {n} bytes", p.id)));
                        }
                        Ok(())
                    })();
                    if let Err(f) = r {
                        if !rep.violations.iter().any(|v| v.sub == sub && v.key == f.key) {
                            rep.violation(sub, f, serde_json::to_value(&c).expect("ser"));
                        }
                    }
                }
            }
        }
    }
}

pub fn replay(_ctx: &Ctx, sub: &str, case: &Value) -> Option<CheckResult> {
    (sub == "all_lengths").then(|| check(&from_case::<Case>(case), &mut Stats::default()))
}
