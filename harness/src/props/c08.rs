//! C08 — signature and polynomial encodings are canonical.

use super::*;
use crate::engine::{hash_of, run_generated, Stats};
use crate::fail;
use crate::gen::sigs::{self, SigMut};
use crate::gen::{self, Pattern};
use crate::libapi::{libs, to_i32, vec_i32, vec_i64, P32};
use crate::props::c02::Base;
use crate::refmodel::{self as rf, Poly};
use fips204::verif_hooks as hk;
use proptest::prelude::*;
use rayon::prelude::*;
use serde::{Deserialize, Serialize};
use serde_json::json;

// ---------------------------------------------------------------------------------------------
// 1. signature strings: decode-accept <=> reference accept; re-encode = input

#[derive(Clone, Debug, Hash, Serialize, Deserialize)]
pub struct SigCase {
    pub set: u8,
    pub base: Base,
    pub muts: Vec<SigMut>,
}

pub fn sig_strategy() -> impl Strategy<Value = SigCase> {
    let base = prop_oneof![
        2 => sigs::honest_spec(64).prop_map(Base::Honest),
        5 => sigs::forge_spec(64, sigs::zval()).prop_map(Base::Forge),
        1 => (gen::pk_spec(), any::<u64>(), gen::message(64), gen::context(), gen::mode())
            .prop_map(|(pk, sig_seed, msg, ctx, mode)| Base::Uniform { pk, sig_seed, msg, ctx, mode }),
    ];
    (0u8..3, base, proptest::collection::vec(sigs::sig_mut(), 0..4)).prop_map(|(set, base, muts)| SigCase { set, base, muts })
}

fn base_tuple(p: &rf::Params, b: &Base) -> sigs::Tuple {
    match b {
        Base::Honest(h) => sigs::build_honest(p, h).tuple,
        Base::Forge(f) => sigs::build_forge(p, f).tuple,
        Base::Uniform { pk, sig_seed, msg, ctx, mode } => sigs::Tuple {
            set: p.id,
            pk: gen::build_pk(p, pk),
            m: msg.bytes(),
            ctx: ctx.bytes(),
            mode: gen::mode_of(*mode),
            sig: gen::prg_bytes(*sig_seed, "uniform-sig", p.sig_len),
        },
    }
}

pub fn check_sig(c: &SigCase, st: &mut Stats) -> CheckResult {
    let libr = libs()[c.set as usize % 3];
    let p = libr.p();
    let t = base_tuple(&p, &c.base);
    let mut sig = t.sig.clone();
    for m in &c.muts {
        sig = sigs::apply_mut(&p, &sig, m);
    }
    let rfld = rf::sig_decode(&p, &sig);
    let lres = g("sig_decode", || libr.hk_sig_decode(&sig))?;
    st.eval();
    let tags: Vec<&str> = c.muts.iter().map(SigMut::tag).collect();
    match (&rfld.h, &lres) {
        (Ok(rh), Ok((lc, lz, lh))) => {
            st.class("decode:accept");
            if !c.muts.is_empty() || matches!(c.base, Base::Forge(_) | Base::Uniform { .. }) {
                st.nontrivial(&(c.set, hash_of(&sig)));
            }
            if lc != &rfld.c_tilde || vec_i64(lz) != rfld.z || &vec_i64(lh) != rh {
                fail!(format!("decode_fields_differ:set{}", p.id), "set {}: sig_decode fields differ from the reference sigDecode (muts {tags:?})", p.id);
            }
            let re = g("sig_encode", || libr.hk_sig_encode(lc, lz, lh, false))?;
            if re != sig {
                let pos = re.iter().zip(&sig).position(|(a, b)| a != b);
                fail!(format!("reencode_differs:set{}", p.id), "set {}: sig_encode(sig_decode(s)) != s (first difference at byte {pos:?}; muts {tags:?}): two byte strings decode to the same signature", p.id);
            }
        }
        (Err(line), Err(_)) => {
            st.class(&format!("decode:reject:hint{line}"));
            for tg in &tags {
                st.class(&format!("reject:{tg}:hint{line}"));
            }
            st.nontrivial(&(c.set, hash_of(&sig)));
        }
        (Ok(_), Err(e)) => fail!(format!("decode_rejects_wellformed:set{}", p.id), "set {}: sig_decode rejects ({e}) a string the reference sigDecode accepts (muts {tags:?})", p.id),
        (Err(line), Ok(_)) => {
            fail!(format!("decode_accepts_malformed:set{}:hint{line}", p.id), "set {}: sig_decode accepts a hint section the reference rejects at HintBitUnpack line {line} (muts {tags:?})", p.id)
        }
    }
    st.sample(&format!("{}:{}", tags.first().unwrap_or(&"none"), if rfld.h.is_ok() { "accept" } else { "reject" }), || {
        json!({"set": p.id, "muts": tags, "hint_section": hex::encode(&sig[p.sig_h_off()..]), "ref": rfld.h.as_ref().map(|_| "ok").map_err(|l| *l)})
    });
    Ok(())
}

// ---------------------------------------------------------------------------------------------
// 2. HintBitUnpack exhaustively on reduced instances

fn hint_check<const K: usize>(omega: usize, y: &[u8]) -> Result<bool, String> {
    let r = rf::hint_bit_unpack(omega, K, y);
    let l = hk::hint_bit_unpack::<K>(omega as i32, y);
    match (r, l) {
        (Ok(rh), Ok(lh)) => {
            for i in 0..K {
                if to_i32(&rh[i]) != lh[i] {
                    return Err(format!("hint_bit_unpack::<{K}>(omega={omega}, {y:02x?}) decodes to a different h than the reference"));
                }
            }
            let mut back = vec![0u8; omega + K];
            hk::hint_bit_pack::<false, K>(omega as i32, &lh, &mut back);
            if back != y {
                return Err(format!("hint_bit_pack(hint_bit_unpack({y:02x?})) = {back:02x?}: encoding not canonical (K={K}, omega={omega})"));
            }
            Ok(true)
        }
        (Err(_), Err(_)) => Ok(false),
        (Ok(_), Err(e)) => Err(format!("hint_bit_unpack::<{K}>(omega={omega}, {y:02x?}) rejects ({e}) a string the reference accepts")),
        (Err(line), Ok(_)) => Err(format!("hint_bit_unpack::<{K}>(omega={omega}, {y:02x?}) accepts a string the reference rejects at line {line}")),
    }
}

fn hint_sweep<const K: usize>(rep: &mut Report, sub: &str, omega: usize, alphabet: Option<&[u8]>) {
    let len = omega + K;
    let base: u64 = alphabet.map_or(256, |a| a.len() as u64);
    let n = base.pow(len as u32);
    let blocks: u64 = 4096;
    let per = n.div_ceil(blocks);
    let res: Vec<(u64, u64, Option<(u64, Fail)>)> = (0..blocks)
        .into_par_iter()
        .map(|b| {
            let (lo, hi) = (b * per, ((b + 1) * per).min(n));
            let mut acc = 0u64;
            let mut y = vec![0u8; len];
            let decode = |i: u64, y: &mut [u8]| {
                let mut x = i;
                for byte in y.iter_mut() {
                    let d = (x % base) as usize;
                    *byte = alphabet.map_or(d as u8, |a| a[d]);
                    x /= base;
                }
            };
            let r = guarded(|| {
                for i in lo..hi {
                    decode(i, &mut y);
                    match hint_check::<K>(omega, &y) {
                        Ok(true) => acc += 1,
                        Ok(false) => {}
                        Err(e) => return Some((i, e)),
                    }
                }
                None
            });
            match r {
                Ok(None) => (hi.saturating_sub(lo), acc, None),
                Ok(Some((i, e))) => (hi - lo, acc, Some((i, Fail::new(format!("{sub}:wrong"), e)))),
                Err(p) => (hi - lo, acc, Some((lo, Fail { key: format!("{sub}:{}", p.key()), what: format!("{sub}: panic in block starting at element {lo}: {} at {}", p.msg, p.loc) }))),
            }
        })
        .collect();
    let mut fails = Vec::new();
    {
        let st = rep.stats(sub);
        for (n_eval, n_acc, f) in res {
            st.evals(n_eval);
            st.nontrivial_enumerated += n_eval;
            st.class_n("accepted", n_acc);
            st.class_n("rejected", n_eval - n_acc);
            if let Some(f) = f {
                fails.push(f);
            }
        }
        st.sample("instance", || json!({"K": K, "omega": omega, "alphabet": alphabet.map(|a| a.to_vec()), "strings": n}));
    }
    fails.sort_by_key(|(i, _)| *i);
    if let Some((i, f)) = fails.into_iter().next() {
        rep.violation(sub, f, json!({"element": i, "K": K, "omega": omega}));
    }
    let _ = rep.exhaustive.insert(sub.to_string(), true);
}

// ---------------------------------------------------------------------------------------------
// 3./4./5. packing round trips and layouts (generated)

#[derive(Clone, Debug, Hash, Serialize, Deserialize)]
pub struct PackCase {
    /// index into RANGES
    pub range: u8,
    pub pat: Pattern,
    /// random byte string for the unpack direction
    pub bytes_seed: u64,
    /// plant raw field values at these positions of the byte-string direction:
    /// kind % 4 = 0: 0, 1: a+b (largest legal), 2: a+b+1 (smallest illegal, if it fits), 3: all ones
    pub plants: Vec<(u8, u8)>,
}

/// (a, b, used by unpack?) for every (a, b) the crate passes to bit_pack / bit_unpack
const RANGES: [(i64, i64, bool); 8] = [
    (2, 2, true),
    (4, 4, true),
    (4095, 4096, true),
    ((1 << 17) - 1, 1 << 17, true),
    ((1 << 19) - 1, 1 << 19, true),
    (0, 1023, true),
    (0, 15, false),
    (0, 43, false),
];

fn pack_strategy() -> impl Strategy<Value = PackCase> {
    (0u8..8, gen::pattern(), any::<u64>(), proptest::collection::vec((any::<u8>(), any::<u8>()), 0..4))
        .prop_map(|(range, pat, bytes_seed, plants)| PackCase { range, pat, bytes_seed, plants })
}

pub fn check_pack(c: &PackCase, st: &mut Stats) -> CheckResult {
    let (a, b, unpack_used) = RANGES[c.range as usize % 8];
    let bits = rf::bitlen(a + b);
    let tag = format!("({a},{b})");
    // direction 1: coefficients -> bytes -> coefficients
    let w: Poly = gen::pattern_poly(&c.pat, a, b, 0);
    let w32 = to_i32(&w);
    // a = 0 is the crate's route for SimpleBitPack (Algorithm 16): the value itself is packed, not b - w
    let expect = if a == 0 { rf::simple_bit_pack(&w, b) } else { rf::bit_pack(&w, a, b) };
    let mut out = vec![0u8; 32 * bits];
    if a == 0 {
        g("simple_bit_pack", || hk::simple_bit_pack(&w32, b as i32, &mut out))?;
    } else {
        g("bit_pack", || hk::bit_pack(&w32, a as i32, b as i32, &mut out))?;
    }
    st.eval();
    st.class(&format!("pack{tag}"));
    if !matches!(c.pat, Pattern::Random(_)) {
        st.nontrivial(&(c.range, &c.pat));
    }
    if out != expect {
        let pos = out.iter().zip(&expect).position(|(x, y)| x != y);
        fail!(format!("pack_differs:{tag}"), "bit_pack{tag} differs from the reference BitPack at byte {pos:?} for pattern {:?}", c.pat);
    }
    if unpack_used {
        let back = if a == 0 { g("simple_bit_unpack", || hk::simple_bit_unpack(&out, b as i32))? } else { g("bit_unpack", || hk::bit_unpack(&out, a as i32, b as i32))? };
        match back {
            Ok(v) if v == w32 => {}
            Ok(_) => fail!(format!("roundtrip_differs:{tag}"), "bit_unpack(bit_pack(w)) != w for range {tag}, pattern {:?}", c.pat),
            Err(e) => fail!(format!("roundtrip_rejected:{tag}"), "bit_unpack rejects ({e}) the packing of an in-range vector, range {tag}, pattern {:?}", c.pat),
        }
        // direction 2: bytes -> coefficients -> bytes
        // power-of-two ranges: uniform bytes; (eta, eta): mostly the packing of an in-range vector with planted
        // fields, so that single out-of-range fields among in-range ones occur
        let pow2 = ((a + b + 1) as u64).is_power_of_two();
        let mut v = if c.bytes_seed % 16 == 1 {
            // constant fill: every field carries the same raw value (all ones half of the time): 256 inadmissible
            // fields at once for the (eta, eta) ranges
            st.class(&format!("unpack{tag}:constant_fill"));
            vec![if (c.bytes_seed >> 4) % 2 == 0 { 0xFF } else { (c.bytes_seed >> 8) as u8 }; 32 * bits]
        } else if pow2 || c.bytes_seed % 4 == 0 {
            gen::prg_bytes(c.bytes_seed, "pack-bytes", 32 * bits)
        } else {
            out.clone()
        };
        for (pos, kind) in &c.plants {
            let f = *pos as usize;
            let all_ones = (1i64 << bits) - 1;
            let val = match kind % 4 {
                0 => 0,
                1 => a + b,
                2 => (a + b + 1).min(all_ones),
                _ => all_ones,
            };
            for bi in 0..bits {
                let bit = f * bits + bi;
                if (val >> bi) & 1 == 1 {
                    v[bit / 8] |= 1 << (bit % 8);
                } else {
                    v[bit / 8] &= !(1 << (bit % 8));
                }
            }
        }
        let raw_max = (0..256).map(|f| (0..bits).fold(0i64, |acc, bi| acc | (i64::from((v[(f * bits + bi) / 8] >> ((f * bits + bi) % 8)) & 1) << bi))).max().unwrap_or(0);
        let must_accept = raw_max <= a + b;
        let r = if a == 0 { g("simple_bit_unpack", || hk::simple_bit_unpack(&v, b as i32))? } else { g("bit_unpack", || hk::bit_unpack(&v, a as i32, b as i32))? };
        st.eval();
        st.nontrivial(&(c.range, c.bytes_seed, &c.plants));
        match (must_accept, r) {
            (true, Ok(wl)) => {
                st.class(&format!("unpack{tag}:accept"));
                let rexp = if a == 0 { rf::simple_bit_unpack(&v, b) } else { rf::bit_unpack(&v, a, b) };
                if vec_i64(&[wl])[0] != rexp {
                    fail!(format!("unpack_differs:{tag}"), "bit_unpack{tag} differs from the reference BitUnpack");
                }
                let mut again = vec![0u8; 32 * bits];
                if a == 0 {
                    g("simple_bit_pack", || hk::simple_bit_pack(&wl, b as i32, &mut again))?;
                } else {
                    g("bit_pack", || hk::bit_pack(&wl, a as i32, b as i32, &mut again))?;
                }
                if again != v {
                    fail!(format!("bytes_roundtrip_differs:{tag}"), "bit_pack(bit_unpack(v)) != v for range {tag}: packing is not a bijection");
                }
            }
            (false, Err(_)) => st.class(&format!("unpack{tag}:reject_out_of_range")),
            (true, Err(e)) => fail!(format!("unpack_rejects_inrange:{tag}"), "bit_unpack{tag} rejects ({e}) a string whose fields are all in range"),
            (false, Ok(_)) => fail!(format!("unpack_accepts_out_of_range:{tag}"), "bit_unpack{tag} accepts a string holding a field value {raw_max} > a+b = {} (coefficient {} outside [-{a}, {b}])", a + b, if a == 0 { raw_max } else { b - raw_max }),
        }
    }
    Ok(())
}

#[derive(Clone, Debug, Hash, Serialize, Deserialize)]
pub struct LayoutCase {
    pub set: u8,
    pub rho: gen::Seed32,
    pub key: gen::Seed32,
    pub tr_seed: u64,
    pub s1: Pattern,
    pub s2: Pattern,
    pub t0: Pattern,
    pub t1: Pattern,
    pub w1: Pattern,
    pub hint: sigs::HKind,
    pub seed: u64,
}

fn layout_strategy() -> impl Strategy<Value = LayoutCase> {
    let hk = prop_oneof![Just(sigs::HKind::Empty), any::<u8>().prop_map(sigs::HKind::Weight), Just(sigs::HKind::Full), any::<u8>().prop_map(sigs::HKind::AllInPoly), Just(sigs::HKind::Edges)];
    (0u8..3, gen::seed32(), gen::seed32(), any::<u64>(), gen::pattern(), gen::pattern(), gen::pattern(), gen::pattern(), gen::pattern(), hk, any::<u64>())
        .prop_map(|(set, rho, key, tr_seed, s1, s2, t0, t1, w1, hint, seed)| LayoutCase { set, rho, key, tr_seed, s1, s2, t0, t1, w1, hint, seed })
}

pub fn check_layout(c: &LayoutCase, st: &mut Stats) -> CheckResult {
    let libr = libs()[c.set as usize % 3];
    let p = libr.p();
    let rho = c.rho.bytes().to_vec();
    let key = c.key.bytes().to_vec();
    let tr = gen::prg_bytes(c.tr_seed, "tr", 64);
    let s1: Vec<Poly> = (0..p.l).map(|i| gen::pattern_poly(&c.s1, p.eta, p.eta, i as u64)).collect();
    let s2: Vec<Poly> = (0..p.k).map(|i| gen::pattern_poly(&c.s2, p.eta, p.eta, 10 + i as u64)).collect();
    let t0: Vec<Poly> = (0..p.k).map(|i| gen::pattern_poly(&c.t0, 4095, 4096, 20 + i as u64)).collect();
    let t1: Vec<Poly> = (0..p.k).map(|i| gen::pattern_poly(&c.t1, 0, 1023, 30 + i as u64)).collect();
    let w1: Vec<Poly> = (0..p.k).map(|i| gen::pattern_poly(&c.w1, 0, p.w1_max(), 40 + i as u64)).collect();
    st.eval();
    st.nontrivial(c);
    st.class(&format!("layout:set{}", p.id));
    // pk
    let rpk = rf::pk_encode(&p, &rho, &t1);
    let lpk = g("pk_encode", || libr.hk_pk_encode(&rho, &vec_i32(&t1)))?;
    if lpk != rpk {
        fail!(format!("pk_encode_differs:set{}", p.id), "set {}: pk_encode differs from the reference pkEncode", p.id);
    }
    match g("pk_decode", || libr.hk_pk_decode(&rpk))? {
        Ok((r, t)) if r == rho && vec_i64(&t) == t1 => {}
        Ok(_) => fail!(format!("pk_decode_differs:set{}", p.id), "set {}: pk_decode(pk_encode(rho, t1)) != (rho, t1)", p.id),
        Err(e) => fail!(format!("pk_decode_err:set{}", p.id), "set {}: pk_decode failed: {e}", p.id),
    }
    // sk
    let rsk = rf::sk_encode(&p, &rf::SkFields { rho: rho.clone(), key: key.clone(), tr: tr.clone(), s1: s1.clone(), s2: s2.clone(), t0: t0.clone() });
    let lsk = g("sk_encode", || libr.hk_sk_encode(&rho, &key, &tr, &vec_i32(&s1), &vec_i32(&s2), &vec_i32(&t0)))?;
    if lsk != rsk {
        let pos = lsk.iter().zip(&rsk).position(|(a, b)| a != b);
        fail!(format!("sk_encode_differs:set{}", p.id), "set {}: sk_encode differs from the reference skEncode at byte {pos:?}", p.id);
    }
    match g("sk_decode", || libr.hk_sk_decode(&rsk))? {
        Ok((r, k, t, a, b, d)) if r == rho && k == key && t == tr && vec_i64(&a) == s1 && vec_i64(&b) == s2 && vec_i64(&d) == t0 => {}
        Ok(_) => fail!(format!("sk_decode_differs:set{}", p.id), "set {}: sk_decode(sk_encode(fields)) != fields", p.id),
        Err(e) => fail!(format!("sk_decode_err:set{}", p.id), "set {}: sk_decode rejects an in-range key: {e}", p.id),
    }
    // w1
    let rw1 = rf::w1_encode(&p, &w1);
    let lw1 = g("w1_encode", || libr.hk_w1_encode(&vec_i32(&w1)))?;
    if lw1 != rw1 {
        fail!(format!("w1_encode_differs:set{}", p.id), "set {}: w1_encode differs from the reference w1Encode", p.id);
    }
    // hint pack / unpack for the real (K, omega)
    let h = sigs::make_h(&p, c.seed, &c.hint);
    let ry = rf::hint_bit_pack(p.omega, &h);
    let ly = g("hint_bit_pack", || libr.hk_hint_pack(&vec_i32(&h), false))?;
    if ly != ry {
        fail!(format!("hint_pack_differs:set{}", p.id), "set {}: hint_bit_pack differs from the reference HintBitPack ({:?})", p.id, c.hint);
    }
    match g("hint_bit_unpack", || libr.hk_hint_unpack(&ry))? {
        Ok(lh) if vec_i64(&lh) == h => {}
        Ok(_) => fail!(format!("hint_roundtrip_differs:set{}", p.id), "set {}: hint_bit_unpack(hint_bit_pack(h)) != h ({:?})", p.id, c.hint),
        Err(e) => fail!(format!("hint_roundtrip_rejected:set{}", p.id), "set {}: hint_bit_unpack rejects a packed hint of weight <= omega ({:?}): {e}", p.id, c.hint),
    }
    let _: P32 = [0; 256];
    Ok(())
}

pub fn run(ctx: &Ctx, rep: &mut Report) {
    rep.assume(ASSUME_REF);
    rep.assume("reduced instances of HintBitUnpack run the crate's generic code with (K, omega) smaller than any parameter set; the algorithm is uniform in K and omega");
    run_generated(ctx, rep, "sig_strings", ctx.n(100_000, 2_000_000), sig_strategy, check_sig);
    run_generated(ctx, rep, "bit_packing", ctx.n(100_000, 2_000_000), pack_strategy, check_pack);
    run_generated(ctx, rep, "layouts", ctx.n(10_000, 200_000), layout_strategy, check_layout);
    hint_sweep::<1>(rep, "hint_unpack_exhaustive:K1_omega2", 2, None);
    hint_sweep::<1>(rep, "hint_unpack_exhaustive:K1_omega1", 1, None);
    // alphabets reach past omega (omega+1 .. 2*omega: counts that exceed omega while each increment stays <= omega)
    let alpha = [0u8, 1, 2, 3, 254, 255];
    let alpha3 = [0u8, 1, 2, 3, 4, 5, 6, 7, 254, 255];
    let alpha4 = [0u8, 1, 2, 3, 4, 5, 6, 8, 254, 255];
    hint_sweep::<2>(rep, "hint_unpack_alphabet:K2_omega3", 3, Some(&alpha3));
    hint_sweep::<3>(rep, "hint_unpack_alphabet:K3_omega4", 4, Some(&alpha4));
    if !ctx.quick() {
        hint_sweep::<2>(rep, "hint_unpack_exhaustive:K2_omega2", 2, None);
        hint_sweep::<3>(rep, "hint_unpack_alphabet:K3_omega5", 5, Some(&alpha));
        hint_sweep::<4>(rep, "hint_unpack_alphabet:K4_omega4", 4, Some(&alpha));
    }
}

pub fn replay(_ctx: &Ctx, sub: &str, case: &Value) -> Option<CheckResult> {
    match sub {
        "sig_strings" => Some(check_sig(&from_case::<SigCase>(case), &mut Stats::default())),
        "bit_packing" => Some(check_pack(&from_case::<PackCase>(case), &mut Stats::default())),
        "layouts" => Some(check_layout(&from_case::<LayoutCase>(case), &mut Stats::default())),
        _ => None,
    }
}
