//! C09 — key serialisation round-trips exactly and preserves behaviour.

use super::*;
use crate::engine::{run_generated, Stats};
use crate::fail;
use crate::gen::sigs::{self, SigMut};
use crate::gen::twins::{self, Twin};
use crate::gen::{self, BytesSpec, PkSpec, Seed32, SkSpec};
use crate::libapi::libs;
use crate::refmodel::{self as rf, MODES};
use proptest::prelude::*;
use serde::{Deserialize, Serialize};
use serde_json::json;

#[derive(Clone, Debug, Hash, Serialize, Deserialize)]
pub struct PkCase {
    pub set: u8,
    pub pk: PkSpec,
}

pub fn check_pk(c: &PkCase, st: &mut Stats) -> CheckResult {
    let libr = libs()[c.set as usize % 3];
    let p = libr.p();
    let b = gen::build_pk(&p, &c.pk);
    let k = g_pk(libr, &b)?;
    let back = g("pk.into_bytes", || k.to_bytes())?;
    st.eval();
    st.class(&format!("{:?}", std::mem::discriminant(&c.pk)));
    if !matches!(c.pk, PkSpec::Generated(_)) {
        st.nontrivial(c);
    }
    st.sample(&format!("set{}", p.id), || json!({"set": p.id, "pk_spec": format!("{:?}", c.pk), "pk": crate::engine::hex_abbrev(&b)}));
    if back != b {
        let pos = back.iter().zip(&b).position(|(x, y)| x != y);
        fail!(format!("pk_roundtrip_differs:set{}", p.id), "set {}: public key {:?} serialises back to different bytes (first difference at byte {pos:?})", p.id, c.pk);
    }
    // and a second generation of the round trip is a fixed point as an object too
    let k2 = g_pk(libr, &back)?;
    if g("pk.into_bytes", || k2.to_bytes())? != b {
        fail!(format!("pk_roundtrip_unstable:set{}", p.id), "set {}: second round trip of public key changes bytes", p.id);
    }
    Ok(())
}

#[derive(Clone, Debug, Hash, Serialize, Deserialize)]
pub struct SkCase {
    pub set: u8,
    pub sk: SkSpec,
    /// overwrite rho, K, tr and the t0 area with uniform bytes from this seed
    pub random_rest: Option<u64>,
    /// fill one header field with a constant byte: (0 rho, 1 K, 2 tr, 3 all three; byte)
    #[serde(default)]
    pub header_fill: Option<(u8, u8)>,
}

pub fn check_sk(c: &SkCase, st: &mut Stats) -> CheckResult {
    let libr = libs()[c.set as usize % 3];
    let p = libr.p();
    let mut b = gen::build_sk(&p, &c.sk).sk;
    if let Some(s) = c.random_rest {
        let r = gen::prg_bytes(s, "rest", p.sk_len);
        b[..128].copy_from_slice(&r[..128]);
        let t0 = p.sk_t0_off();
        b[t0..].copy_from_slice(&r[t0..]);
    }
    if let Some((which, byte)) = c.header_fill {
        let range = match which % 4 {
            0 => 0..32,
            1 => 32..64,
            2 => 64..128,
            _ => 0..128,
        };
        b[range].iter_mut().for_each(|x| *x = byte);
        st.class("header_field_constant_fill");
    }
    st.eval();
    match g_sk(libr, &b)? {
        Err(_) => {
            st.class("rejected");
            Ok(())
        }
        Ok(k) => {
            st.class("accepted");
            if !matches!((&c.sk, c.random_rest, c.header_fill), (SkSpec::Generated(_), None, None)) {
                st.nontrivial(c);
            }
            st.sample(&format!("set{}", p.id), || json!({"set": p.id, "sk_spec": format!("{:?}", c.sk), "random_rest": c.random_rest.is_some()}));
            let back = g("sk.into_bytes", || k.to_bytes())?;
            if back != b {
                let pos = back.iter().zip(&b).position(|(x, y)| x != y);
                fail!(format!("sk_roundtrip_differs:set{}", p.id), "set {}: accepted private key {:?} serialises back to different bytes (first difference at byte {pos:?})", p.id, c.sk);
            }
            Ok(())
        }
    }
}

#[derive(Clone, Debug, Hash, Serialize, Deserialize)]
pub struct BehaviourCase {
    pub set: u8,
    pub key: Seed32,
    pub msg: BytesSpec,
    pub ctx: BytesSpec,
    pub rnd: Seed32,
    pub muts: Vec<SigMut>,
    /// history: near-twins of the serialised keys are deserialised immediately before (and after) the keys themselves
    #[serde(default)]
    pub twin: Option<Twin>,
}

pub fn check_behaviour(c: &BehaviourCase, st: &mut Stats) -> CheckResult {
    let libr = libs()[c.set as usize % 3];
    let p = libr.p();
    let (m, ctx, rnd) = (c.msg.bytes(), c.ctx.bytes(), c.rnd.bytes());
    let (pk, sk) = g("keygen_from_seed", || libr.keygen_from_seed(&c.key.bytes()))?;
    let pk_bytes = g("pk.into_bytes", || pk.to_bytes())?;
    let sk_bytes = g("sk.into_bytes", || sk.to_bytes())?;
    if let Some(t) = &c.twin {
        for v in t.variants(&pk_bytes) {
            let _ = g_pk(libr, &v)?;
        }
        st.class("history:twin_imported_first");
    }
    let pk_rt = g_pk(libr, &pk_bytes)?;
    // the reverse order: the twin follows the key; its own verdicts are compared with the reference below
    let twin_after: Option<(Vec<u8>, Box<dyn PkObj>)> = match &c.twin {
        Some(t) => {
            let v = t.variants(&pk_bytes).remove(0);
            let k = g_pk(libr, &v)?;
            Some((v, k))
        }
        None => None,
    };
    if let Some(t) = &c.twin {
        for v in t.variants(&sk_bytes) {
            let _ = g_sk(libr, &v)?;
        }
    }
    let sk_rt = match g_sk(libr, &sk_bytes)? {
        Ok(k) => k,
        Err(e) => fail!("sk_roundtrip:err", "set {}: generated private key rejected: {e}", p.id),
    };
    if g("sk.into_bytes", || sk_rt.to_bytes())? != sk_bytes || g("pk.into_bytes", || pk_rt.to_bytes())? != pk_bytes {
        fail!(format!("roundtrip_bytes_differ:set{}", p.id), "set {}: a generated key serialises, deserialises and serialises to different bytes", p.id);
    }
    st.nontrivial(c);
    let mut sigs_all = Vec::new();
    for mode in MODES {
        let mut outs = Vec::new();
        for k in [&sk, &sk_rt] {
            let mut rng = TestRng::replay(&rnd);
            match g_sign(&**k, &mut rng, &m, &ctx, mode) {
                Ok(Ok(s)) => outs.push(s),
                Ok(Err(e)) => fail!("sign:err", "set {}: signing failed: {e}", p.id),
                Err(pi) => return Err(Fail::panic("sign", &pi)),
            }
            st.eval();
        }
        if outs[0] != outs[1] {
            fail!(format!("sig_differs_after_roundtrip:set{}:{}", p.id, mode.tag()), "set {} {}: round-tripped private key gives a different signature for the same randomness", p.id, mode.tag());
        }
        sigs_all.push((mode, outs.remove(0)));
    }
    // verdict battery: valid signatures, mutants, wrong message / ctx / mode
    let mut battery: Vec<(Vec<u8>, Vec<u8>, Vec<u8>, Mode)> = Vec::new();
    for (mode, s) in &sigs_all {
        battery.push((m.clone(), s.clone(), ctx.clone(), *mode));
        let mut m2 = m.clone();
        m2.push(1);
        battery.push((m2, s.clone(), ctx.clone(), *mode));
        battery.push((m.clone(), s.clone(), ctx.clone(), MODES[(MODES.iter().position(|x| x == mode).unwrap() + 1) % 4]));
        for mu in &c.muts {
            battery.push((m.clone(), sigs::apply_mut(&p, s, mu), ctx.clone(), *mode));
        }
    }
    let (mut n_true, mut n_false) = (0, 0);
    for (bm, bs, bc, bmode) in &battery {
        let v1 = g_verify(&*pk, bm, bs, bc, *bmode)?;
        let v2 = g_verify(&*pk_rt, bm, bs, bc, *bmode)?;
        st.evals(2);
        if v1 != v2 {
            fail!(format!("verdict_differs_after_roundtrip:set{}", p.id), "set {}: generated public key says {v1}, round-tripped public key says {v2} on the same input", p.id);
        }
        let rv = rf::verify(&p, &pk.to_bytes(), bm, bs, bc, *bmode).accepted();
        if v1 != rv {
            fail!(format!("verdict_differs_from_reference:set{}", p.id), "set {}: verdict {v1} differs from FIPS 204 Verify {rv}", p.id);
        }
        if v1 {
            n_true += 1;
        } else {
            n_false += 1;
        }
    }
    if let Some((tb, tk)) = &twin_after {
        for (mode, s) in &sigs_all {
            let v = g_verify(&**tk, &m, s, &ctx, *mode)?;
            let rv = rf::verify(&p, tb, &m, s, &ctx, *mode).accepted();
            st.eval();
            if v != rv {
                fail!(format!("twin_verdict_differs_from_reference:set{}", p.id), "set {}: a near-twin of the public key (deserialised right after the key itself, {:?}) says {v} where FIPS 204 Verify on the twin's bytes says {rv}", p.id, c.twin);
            }
        }
        if g("pk.into_bytes", || tk.to_bytes())? != *tb {
            fail!(format!("twin_roundtrip_differs:set{}", p.id), "set {}: near-twin public key serialises back to different bytes", p.id);
        }
    }
    st.class_n("verdict:true", n_true);
    st.class_n("verdict:false", n_false);
    Ok(())
}

/// Many seeds (weighted towards the larger sets): the generated private-key object and its re-imported copy must
/// export the same bytes and produce the same signature. A key object that key generation fills incorrectly for
/// one seed in 10^5 still re-imports to a correct object, so only this comparison (or a reference) shows it.
fn generated_vs_reimported_sweep(ctx: &Ctx, rep: &mut Report) {
    if cfg!(debug_assertions) {
        return; // plain profile only (C13 sweeps key generation with the self-checks on)
    }
    let n = u64::from(ctx.n(200_000, 3_000_000));
    let seed = ctx.seed;
    crate::engine::run_sweep(
        rep,
        "generated_vs_reimported_sweep",
        n,
        false,
        |i, st| {
            let libr = libs()[match i % 20 { 0 => 0, 1..=3 => 1, _ => 2 }];
            let p = libr.p();
            let v = gen::prg_bytes(crate::engine::hash_of(&(seed, "c09-sweep", i)), "xi", 64);
            let xi: [u8; 32] = core::array::from_fn(|k| v[k]);
            let rnd: [u8; 32] = core::array::from_fn(|k| v[32 + k]);
            st.eval();
            st.nontrivial_enumerated += 1;
            let (_, sk) = g("keygen_from_seed", || libr.keygen_from_seed(&xi))?;
            let b = g("sk.into_bytes", || sk.to_bytes())?;
            let sk2 = match g_sk(libr, &b)? {
                Ok(k) => k,
                Err(e) => fail!(format!("sweep:generated_sk_rejected:set{}", p.id), "set {}: the serialisation of the private key generated from seed {} is rejected by try_from_bytes ({e})", p.id, hex::encode(xi)),
            };
            if g("sk.into_bytes", || sk2.to_bytes())? != b {
                fail!(format!("sweep:roundtrip_bytes_differ:set{}", p.id), "set {}: private key generated from seed {} changes bytes over a round trip", p.id, hex::encode(xi));
            }
            let m = &v[..(i % 33) as usize];
            let s1 = guarded(|| sk.sign(&mut TestRng::replay(&rnd), m, &[], Mode::Pure)).map_err(|pi| Fail::panic("sign", &pi))?;
            let s2 = guarded(|| sk2.sign(&mut TestRng::replay(&rnd), m, &[], Mode::Pure)).map_err(|pi| Fail::panic("sign", &pi))?;
            if s1 != s2 {
                fail!(format!("sweep:sig_differs_after_roundtrip:set{}", p.id), "set {}: the private key generated from seed {} and its re-imported copy sign differently (generated: {}, copy: {})", p.id, hex::encode(xi), if s1.is_ok() { "Ok" } else { "Err" }, if s2.is_ok() { "Ok" } else { "Err" });
            }
            Ok(())
        },
        |i| json!({"index": i, "seed": seed}),
    );
}

pub fn run(ctx: &Ctx, rep: &mut Report) {
    rep.assume(ASSUME_REF);
    run_generated(ctx, rep, "pk_roundtrip", ctx.n(100_000, 2_000_000), || (0u8..3, gen::pk_spec()).prop_map(|(set, pk)| PkCase { set, pk }), check_pk);
    run_generated(
        ctx,
        rep,
        "sk_roundtrip",
        ctx.n(30_000, 600_000),
        || {
            let fill = proptest::option::weighted(0.3, (0u8..4, prop_oneof![Just(0u8), Just(0xFFu8), any::<u8>()]));
            (0u8..3, gen::sk_spec(), proptest::option::of(any::<u64>()), fill).prop_map(|(set, sk, random_rest, header_fill)| SkCase { set, sk, random_rest, header_fill })
        },
        check_sk,
    );
    run_generated(
        ctx,
        rep,
        "behaviour",
        ctx.n(2000, 40_000),
        || {
            (0u8..3, gen::seed32(), gen::message(300), gen::context(), gen::seed32(), proptest::collection::vec(sigs::sig_mut(), 2..6), proptest::option::weighted(0.6, twins::twin()))
                .prop_map(|(set, key, msg, ctx, rnd, muts, twin)| BehaviourCase { set, key, msg, ctx, rnd, muts, twin })
        },
        check_behaviour,
    );
    crate::props::history::run(ctx, rep, 2500, 60000);
    crate::props::c03::cold_start(ctx, rep, &["import round trip differs", "panic"]);
    generated_vs_reimported_sweep(ctx, rep);
}

pub fn replay(_ctx: &Ctx, sub: &str, case: &Value) -> Option<CheckResult> {
    match sub {
        "pk_roundtrip" => Some(check_pk(&from_case::<PkCase>(case), &mut Stats::default())),
        "sk_roundtrip" => Some(check_sk(&from_case::<SkCase>(case), &mut Stats::default())),
        "behaviour" => Some(check_behaviour(&from_case::<BehaviourCase>(case), &mut Stats::default())),
        _ => None,
    }
}
