//! C10 — malformed private keys are rejected at deserialisation.

use super::*;
use crate::engine::{hash_of, run_generated, run_sweep, Stats};
use crate::fail;
use crate::gen::twins::{self, CompOp};
use crate::gen::{self, Pattern, Seed32, SkSpec};
use crate::libapi::libs;
use crate::refmodel as rf;
use proptest::prelude::*;
use serde::{Deserialize, Serialize};
use serde_json::json;

/// write raw field value `v` into field `f` of the s1/s2 area
fn set_field(p: &rf::Params, sk: &mut [u8], f: usize, v: u8) {
    let c = p.eta_bits();
    for b in 0..c {
        let bit = 128 * 8 + f * c + b;
        if (v >> b) & 1 == 1 {
            sk[bit / 8] |= 1 << (bit % 8);
        } else {
            sk[bit / 8] &= !(1 << (bit % 8));
        }
    }
}

fn nfields(p: &rf::Params) -> usize { (p.l + p.k) * 256 }

/// The oracle and the judgement for one byte string.
fn judge(libr: &dyn Lib, sk: &[u8], st: &mut Stats, what: &str) -> CheckResult {
    let p = libr.p();
    let in_range = rf::sk_fields_in_range(&p, sk);
    let res = g_sk(libr, sk)?;
    st.eval();
    match (in_range, res) {
        (false, Err(_)) => {
            st.class("rejected_malformed");
            Ok(())
        }
        (false, Ok(k)) => {
            // the "consequently" clause: what does re-serialisation do with it?
            let extra = match guarded(|| k.to_bytes()) {
                Ok(b) if b == sk => "; into_bytes silently round-trips the bad field".to_string(),
                Ok(_) => "; into_bytes returns different bytes".to_string(),
                Err(pi) => format!("; into_bytes then panics at {}: {}", pi.loc, pi.msg),
            };
            Err(Fail::new(
                format!("accepts_malformed:set{}", p.id),
                format!("set {}: PrivateKey::try_from_bytes accepts a key with an s1/s2 field outside [-eta, eta] ({what}){extra}", p.id),
            ))
        }
        (true, Err(e)) => Err(Fail::new(format!("rejects_wellformed:set{}", p.id), format!("set {}: PrivateKey::try_from_bytes rejects ({e}) a key whose s1/s2 fields are all in range ({what})", p.id))),
        (true, Ok(k)) => {
            st.class("accepted_wellformed");
            let back = g("sk.into_bytes", || k.to_bytes())?;
            if back != sk {
                let pos = back.iter().zip(sk).position(|(a, b)| a != b);
                fail!(format!("accepted_key_changes:set{}", p.id), "set {}: accepted key re-serialises to different bytes (first difference at byte {pos:?}; {what})", p.id);
            }
            Ok(())
        }
    }
}

// ---------------------------------------------------------------------------------------------
// (a) every single planted fault

fn base_keys(p: &rf::Params, seed: u64) -> Vec<(String, Vec<u8>)> {
    let s = hash_of(&(seed, "c10-base", p.id));
    vec![
        ("generated".to_string(), rf::keygen_internal(p, &Seed32::Uniform(s).bytes()).1),
        (
            "fields:all_max".to_string(),
            gen::build_sk(p, &SkSpec::Fields { rho: Seed32::Uniform(s), key: Seed32::Zero, tr_seed: s, s1: Pattern::AllMax, s2: Pattern::AllMin, t0: Pattern::Random(s), consistent: false }).sk,
        ),
    ]
}

fn single_faults(ctx: &Ctx, rep: &mut Report) {
    for libr in libs() {
        let p = libr.p();
        let sub = format!("single_fault_{}", p.id);
        let bases = base_keys(&p, ctx.seed);
        let nb = bases.len();
        let bad_values: Vec<u8> = ((2 * p.eta as u8 + 1)..(1u8 << p.eta_bits())).collect();
        let nv = bad_values.len();
        let nf = nfields(&p);
        let total = (nb * nf * nv) as u64;
        run_sweep(
            rep,
            &sub,
            total,
            true,
            |i, st| {
                let i = i as usize;
                let (b, f, v) = (i / (nf * nv), (i / nv) % nf, bad_values[i % nv]);
                let mut sk = bases[b].1.clone();
                set_field(&p, &mut sk, f, v);
                st.nontrivial_enumerated += 1;
                if i % 997 == 0 {
                    st.sample("fault", || json!({"set": p.id, "base": bases[b].0, "field": f, "vector": if f < p.l * 256 { "s1" } else { "s2" }, "poly": f / 256, "coeff": f % 256, "raw_value": v, "decodes_to": p.eta - i64::from(v)}));
                }
                judge(libr, &sk, st, &format!("base {}, field {f} (poly {}, coefficient {}) set to raw value {v} = coefficient {}", bases[b].0, f / 256, f % 256, p.eta - i64::from(v)))
            },
            |i| {
                let i = i as usize;
                json!({"set": p.id, "base": i / (nf * nv), "field": (i / nv) % nf, "raw_value": bad_values[i % nv], "seed": ctx.seed})
            },
        );
    }
}

// ---------------------------------------------------------------------------------------------
// (b)-(e) generated strings

#[derive(Clone, Debug, Hash, Serialize, Deserialize)]
pub enum Kind {
    /// base key with these (field index scaled, raw value) faults planted
    MultiFault(Vec<(u32, u8)>),
    Uniform(u64),
    /// in-range fields everywhere (must be accepted)
    InRange,
    /// in-range s1/s2, everything else uniform random bytes (rho, K, tr, t0 area)
    InRangeRandomRest(u64),
    /// every field of one polynomial (or, with poly = 255, of all polynomials) set to one raw value
    PolyFill { poly: u8, raw: u8 },
    /// the whole s1/s2 area filled with one byte
    AreaFill(u8),
}

#[derive(Clone, Debug, Hash, Serialize, Deserialize)]
pub struct Case {
    pub set: u8,
    pub base: SkSpec,
    pub kind: Kind,
}

fn strategy() -> impl Strategy<Value = Case> {
    let kind = prop_oneof![
        4 => proptest::collection::vec((any::<u32>(), any::<u8>()), 1..64).prop_map(Kind::MultiFault),
        2 => any::<u64>().prop_map(Kind::Uniform),
        3 => Just(Kind::InRange),
        2 => any::<u64>().prop_map(Kind::InRangeRandomRest),
        2 => (prop_oneof![any::<u8>(), Just(255u8)], any::<u8>()).prop_map(|(poly, raw)| Kind::PolyFill { poly, raw }),
        1 => prop_oneof![Just(0xFFu8), Just(0u8), any::<u8>()].prop_map(Kind::AreaFill),
    ];
    (0u8..3, gen::sk_spec(), kind).prop_map(|(set, base, kind)| Case { set, base, kind })
}

pub fn check(c: &Case, st: &mut Stats) -> CheckResult {
    let libr = libs()[c.set as usize % 3];
    let p = libr.p();
    let mut sk = gen::build_sk(&p, &c.base).sk;
    let what = match &c.kind {
        Kind::MultiFault(faults) => {
            for (fi, v) in faults {
                let f = ((u64::from(*fi) * nfields(&p) as u64) >> 32) as usize;
                // any raw value; some are in range, so the string may still be well-formed
                set_field(&p, &mut sk, f, v % (1 << p.eta_bits()));
            }
            st.class("kind:multi_fault");
            format!("{} planted raw values", faults.len())
        }
        Kind::Uniform(s) => {
            sk = gen::prg_bytes(*s, "uniform-sk", p.sk_len);
            st.class("kind:uniform");
            "uniform random string".to_string()
        }
        Kind::InRange => {
            st.class("kind:in_range");
            format!("field-built {:?}", c.base)
        }
        Kind::InRangeRandomRest(s) => {
            let r = gen::prg_bytes(*s, "rest", p.sk_len);
            sk[..128].copy_from_slice(&r[..128]);
            let t0 = p.sk_t0_off();
            sk[t0..].copy_from_slice(&r[t0..]);
            st.class("kind:in_range_random_rho_K_tr_t0");
            "in-range s1/s2 with uniform rho, K, tr, t0".to_string()
        }
        Kind::PolyFill { poly, raw } => {
            let npoly = p.l + p.k;
            let v = raw % (1 << p.eta_bits());
            let polys: Vec<usize> = if *poly == 255 { (0..npoly).collect() } else { vec![*poly as usize % npoly] };
            for pi in polys {
                for f in 0..256 {
                    set_field(&p, &mut sk, pi * 256 + f, v);
                }
            }
            st.class("kind:whole_polynomial_fill");
            format!("all 256 fields of polynomial {poly} set to raw value {v}")
        }
        Kind::AreaFill(b) => {
            let (a, e) = (p.sk_s1_off(), p.sk_t0_off());
            sk[a..e].iter_mut().for_each(|x| *x = *b);
            st.class("kind:area_fill");
            format!("s1/s2 area filled with byte {b:#04x}")
        }
    };
    if !matches!((&c.kind, &c.base), (Kind::InRange, SkSpec::Generated(_))) {
        st.nontrivial(c);
    }
    st.sample(&format!("{:?}", std::mem::discriminant(&c.kind)), || json!({"set": p.id, "kind": format!("{:?}", c.kind).chars().take(200).collect::<String>(), "in_range": rf::sk_fields_in_range(&p, &sk)}));
    judge(libr, &sk, st, &what)
}

// ---------------------------------------------------------------------------------------------
// (f) history: a valid key is deserialised, then a malformed near-twin of it that preserves a weak
// checksum of the encoding (what a "same key as last time, skip validation" shortcut would key on)

#[derive(Clone, Debug, Hash, Serialize, Deserialize)]
pub struct TwinCase {
    pub set: u8,
    pub base: Seed32,
    /// scaled index of the field that receives the out-of-range raw value
    pub field: u32,
    pub bad: u8,
    pub width: u8,
    pub op: CompOp,
    pub gap: u8,
}

fn twin_strategy() -> impl Strategy<Value = TwinCase> {
    (0u8..3, gen::seed32(), any::<u32>(), any::<u8>(), prop_oneof![Just(1u8), Just(2), Just(4), Just(8)], twins::comp_op(), 1u8..4)
        .prop_map(|(set, base, field, bad, width, op, gap)| TwinCase { set, base, field, bad, width, op, gap })
}

pub fn check_twin(c: &TwinCase, st: &mut Stats) -> CheckResult {
    let libr = libs()[c.set as usize % 3];
    let p = libr.p();
    let valid = rf::keygen_internal(&p, &c.base.bytes()).1;
    let bits = p.eta_bits();
    let w = match c.op {
        CompOp::Poly(_) => 1usize,
        _ => c.width as usize,
    };
    // a field that lies inside one w-byte word
    let nf = nfields(&p);
    let mut f = ((u64::from(c.field) * nf as u64) >> 32) as usize;
    let area = 128 * 8;
    while (area + f * bits) / (8 * w) != (area + f * bits + bits - 1) / (8 * w) {
        f = (f + 1) % nf;
    }
    let bad_values: Vec<u64> = ((2 * p.eta as u64 + 1)..(1u64 << bits)).collect();
    let bad = bad_values[c.bad as usize % bad_values.len()];
    let bit = area + f * bits;
    let i = (bit / (8 * w)) * w;
    let shift = bit % (8 * w);
    let old = {
        let mut a = [0u8; 8];
        a[..w].copy_from_slice(&valid[i..i + w]);
        (u64::from_le_bytes(a) >> shift) & ((1 << bits) - 1)
    };
    let delta = match c.op {
        CompOp::Add => (bad - old) << shift, // old <= 2 eta < bad: no carry out of the field
        CompOp::Poly(_) => ((bad - old) << shift) & 0xFF,
        _ => (bad ^ old) << shift,
    };
    let gap = match c.op {
        CompOp::XorRot | CompOp::Poly(_) => 1usize,
        _ => c.gap as usize,
    };
    let j = i + gap * w;
    if j + w > valid.len() || delta == 0 {
        return Ok(());
    }
    let rots: Vec<u32> = if c.op == CompOp::XorRot { (0..8 * w as u32).collect() } else { vec![0] };
    st.class(&format!("op={:?}/width={w}", c.op));
    st.nontrivial(c);
    for r in rots {
        let mut twin = valid.clone();
        twins::compensate(&mut twin, w, c.op, i, j, delta, r);
        if twin == valid {
            continue;
        }
        match g_sk(libr, &valid)? {
            Ok(_) => {}
            Err(e) => fail!(format!("rejects_wellformed:set{}", p.id), "set {}: a generated private key is rejected ({e})", p.id),
        }
        st.sample("twin", || json!({"set": p.id, "field": f, "raw_bad_value": bad, "op": format!("{:?}", c.op), "width": w, "first_word_at": i, "second_word_at": j, "rotation": r, "twin_in_range": rf::sk_fields_in_range(&p, &twin)}));
        judge(libr, &twin, st, &format!("deserialised right after the valid key it was made from; field {f} carries raw value {bad}, a second {w}-byte word at offset {j} compensates ({:?}, rotation {r})", c.op))?;
    }
    Ok(())
}

pub fn run(ctx: &Ctx, rep: &mut Report) {
    rep.assume("oracle: bit arithmetic on the byte string (a raw field value > 2*eta in the s1/s2 area <=> coefficient outside [-eta, eta]); shares no decoding code with the crate or with the reference's skDecode");
    rep.assume("the promise to reject is the crate's own documentation (traits.rs SerDes::try_from_bytes, encodings.rs sk_decode, conversion.rs bit_unpack); FIPS 204 skDecode itself does not reject");
    single_faults(ctx, rep);
    run_generated(ctx, rep, "generated", ctx.n(60_000, 2_000_000), strategy, check);
    run_generated(ctx, rep, "after_valid_twin", ctx.n(6000, 200_000), twin_strategy, check_twin);
}

pub fn replay(ctx: &Ctx, sub: &str, case: &Value) -> Option<CheckResult> {
    if sub == "generated" {
        return Some(check(&from_case::<Case>(case), &mut Stats::default()));
    }
    if sub == "after_valid_twin" {
        return Some(check_twin(&from_case::<TwinCase>(case), &mut Stats::default()));
    }
    if let Some(id) = sub.strip_prefix("single_fault_") {
        let libr = crate::libapi::lib(id.parse().ok()?);
        let p = libr.p();
        let seed = case["seed"].as_u64().unwrap_or(ctx.seed);
        let bases = base_keys(&p, seed);
        let mut sk = bases[case["base"].as_u64()? as usize].1.clone();
        set_field(&p, &mut sk, case["field"].as_u64()? as usize, case["raw_value"].as_u64()? as u8);
        return Some(judge(libr, &sk, &mut Stats::default(), "replayed single fault"));
    }
    None
}
