//! C11 — the public key derived from a private key equals the generated one.

use super::*;
use crate::engine::{run_generated, Stats};
use crate::fail;
use crate::gen::sigs::{self, SigMut};
use crate::gen::{self, BytesSpec, Seed32};
use crate::libapi::libs;
use crate::refmodel::{self as rf, MODES};
use proptest::prelude::*;
use serde::{Deserialize, Serialize};
use serde_json::json;

#[derive(Clone, Debug, Hash, Serialize, Deserialize)]
pub struct Case {
    pub set: u8,
    pub key: Seed32,
    pub other_key: Seed32,
    pub msg: BytesSpec,
    pub ctx: BytesSpec,
    pub rnd: Seed32,
    pub muts: Vec<SigMut>,
    /// derive from the round-tripped private key instead of the generated one
    pub roundtripped: bool,
}

fn strategy() -> impl Strategy<Value = Case> {
    (0u8..3, gen::seed32(), gen::seed32(), gen::message(300), gen::context(), gen::seed32(), proptest::collection::vec(sigs::sig_mut(), 3..6), any::<bool>())
        .prop_map(|(set, key, other_key, msg, ctx, rnd, muts, roundtripped)| Case { set, key, other_key, msg, ctx, rnd, muts, roundtripped })
}

pub fn check(c: &Case, st: &mut Stats) -> CheckResult {
    let libr = libs()[c.set as usize % 3];
    let p = libr.p();
    let (m, ctx, rnd) = (c.msg.bytes(), c.ctx.bytes(), c.rnd.bytes());
    let xi = c.key.bytes();
    let (pk, sk) = g("keygen_from_seed", || libr.keygen_from_seed(&xi))?;
    let pkb = g("pk.into_bytes", || pk.to_bytes())?;
    let src: Box<dyn SkObj> = if c.roundtripped {
        match g_sk(libr, &g("sk.into_bytes", || sk.to_bytes())?)? {
            Ok(k) => k,
            Err(e) => fail!("sk_roundtrip:err", "set {}: generated private key rejected: {e}", p.id),
        }
    } else {
        g("sk.clone", || sk.clone_box())?
    };
    let dpk = g("get_public_key", || src.public_key())?;
    let dpkb = g("pk.into_bytes", || dpk.to_bytes())?;
    st.eval();
    let prov = if c.roundtripped { "roundtripped" } else { "generated" };
    st.class(&format!("set{}:{prov}", p.id));
    if dpkb != pkb {
        let pos = dpkb.iter().zip(&pkb).position(|(a, b)| a != b);
        fail!(format!("derived_pk_differs:set{}", p.id), "set {}: get_public_key() of the {prov} private key serialises differently from the generated public key (first difference at byte {pos:?})", p.id);
    }
    if pkb != rf::keygen_internal(&p, &xi).0 {
        fail!(format!("generated_pk_differs_from_reference:set{}", p.id), "set {}: generated public key differs from FIPS 204", p.id);
    }
    let pk_des = g_pk(libr, &pkb)?;
    // battery
    let mut battery: Vec<(String, Vec<u8>, Vec<u8>, Vec<u8>, Mode)> = Vec::new();
    let (_, other_sk) = g("keygen_from_seed", || libr.keygen_from_seed(&c.other_key.bytes()))?;
    for mode in MODES {
        let mut rng = TestRng::replay(&rnd);
        let s = match g_sign(&*src, &mut rng, &m, &ctx, mode) {
            Ok(Ok(s)) => s,
            Ok(Err(e)) => fail!("sign:err", "set {}: signing failed: {e}", p.id),
            Err(pi) => return Err(Fail::panic("sign", &pi)),
        };
        battery.push((format!("valid:{}", mode.tag()), m.clone(), s.clone(), ctx.clone(), mode));
        let mut m2 = m.clone();
        m2.push(0);
        battery.push(("wrong_msg".into(), m2, s.clone(), ctx.clone(), mode));
        let mut c2 = ctx.clone();
        if c2.len() < 255 {
            c2.push(0);
        } else {
            c2[0] ^= 1;
        }
        battery.push(("wrong_ctx".into(), m.clone(), s.clone(), c2, mode));
        battery.push(("wrong_mode".into(), m.clone(), s.clone(), ctx.clone(), MODES[(MODES.iter().position(|x| *x == mode).unwrap() + 1) % 4]));
        if mode == Mode::Pure {
            for mu in &c.muts {
                battery.push((format!("mutant:{}", mu.tag()), m.clone(), sigs::apply_mut(&p, &s, mu), ctx.clone(), mode));
            }
            let mut rng = TestRng::replay(&rnd);
            if let Ok(Ok(fs)) = g_sign(&*other_sk, &mut rng, &m, &ctx, mode) {
                battery.push(("foreign_key".into(), m.clone(), fs, ctx.clone(), mode));
            }
        }
    }
    let (mut n_true, mut n_false) = (0u64, 0u64);
    for (name, bm, bs, bc, bmode) in &battery {
        let v_gen = g_verify(&*pk, bm, bs, bc, *bmode)?;
        let v_des = g_verify(&*pk_des, bm, bs, bc, *bmode)?;
        let v_der = g_verify(&*dpk, bm, bs, bc, *bmode)?;
        st.evals(3);
        if v_gen != v_der || v_gen != v_des {
            fail!(
                format!("verdicts_differ:set{}", p.id),
                "set {} [{name}]: generated pk says {v_gen}, deserialised pk says {v_des}, pk derived from the {prov} private key says {v_der}", p.id
            );
        }
        if name.starts_with("valid:") && !v_der {
            fail!(format!("derived_rejects_valid:set{}", p.id), "set {} [{name}]: derived public key rejects a valid signature", p.id);
        }
        if c.other_key.bytes() != c.key.bytes() && name == "foreign_key" && v_der {
            fail!(format!("derived_accepts_foreign:set{}", p.id), "set {}: derived public key accepts another key's signature", p.id);
        }
        if v_der {
            n_true += 1;
        } else {
            n_false += 1;
        }
    }
    st.class_n("verdict:true", n_true);
    st.class_n("verdict:false", n_false);
    if n_true > 0 && n_false > 0 {
        st.nontrivial(c);
    }
    st.sample(&format!("set{}:{prov}", p.id), || json!({"set": p.id, "seed": hex::encode(xi), "provenance": prov, "battery": battery.len(), "true": n_true, "false": n_false}));
    Ok(())
}

pub fn run(ctx: &Ctx, rep: &mut Report) {
    rep.assume(ASSUME_REF);
    run_generated(ctx, rep, "generated", ctx.n(6000, 100_000), strategy, check);
    let mut rare: Vec<Case> = Vec::new();
    for (set, i) in rare_seed_cases() {
        for roundtripped in [false, true] {
            rare.push(Case { set, key: Seed32::RareSampler(i), other_key: Seed32::Zero, msg: BytesSpec { len: 17, constant: None, seed: u64::from(i) }, ctx: BytesSpec { len: 2, constant: Some(9), seed: 0 }, rnd: Seed32::Ones, muts: vec![], roundtripped });
        }
    }
    crate::engine::run_list(rep, "rare_sampler_seeds", &rare, check);
    rare_seed_maxima(rep.stats("rare_sampler_seeds"));
    crate::props::history::run(ctx, rep, 2500, 60000);
}

pub fn replay(_ctx: &Ctx, sub: &str, case: &Value) -> Option<CheckResult> {
    (sub == "generated" || sub == "rare_sampler_seeds").then(|| check(&from_case::<Case>(case), &mut Stats::default()))
}
