//! C12 — RNG failure is reported, and all drawn randomness is used (fault enumeration).

use super::*;
use crate::engine::{hash_of, run_sweep, Stats};
use crate::fail;
use crate::gen;
use crate::libapi::{libs, Fault};
use crate::refmodel::{self as rf, MODES};
use serde::{Deserialize, Serialize};
use serde_json::json;

const FAULTS: [Fault; 6] = [Fault::None, Fault::ErrBefore, Fault::ErrAfter(1), Fault::ErrAfter(16), Fault::ErrAfter(31), Fault::ErrAfter(32)];
/// entry points: 0 KeyGen trait, 1 module-level keygen, 2 sign (pure), 3..5 hash-sign
const ENTRIES: usize = 6;

#[derive(Clone, Debug, Hash, Serialize, Deserialize)]
pub struct Case {
    pub set: u8,
    pub entry: u8,
    pub script: [Fault; 3],
    pub infallible_panics: bool,
    pub seed: u64,
    /// index into libapi::ERR_CODES
    #[serde(default)]
    pub err_code: u8,
}

fn entry_name(e: u8) -> &'static str {
    match e {
        0 => "KeyGen::try_keygen_with_rng",
        1 => "try_keygen_with_rng",
        2 => "try_sign_with_rng",
        3 => "try_hash_sign_with_rng(SHA256)",
        4 => "try_hash_sign_with_rng(SHA512)",
        _ => "try_hash_sign_with_rng(SHAKE128)",
    }
}

pub fn check(c: &Case, st: &mut Stats) -> CheckResult {
    let libr = libs()[c.set as usize % 3];
    let p = libr.p();
    let data = gen::prg_bytes(c.seed, "c12-stream", 96);
    let mut rng = TestRng::with_faults(&data, c.script.to_vec(), c.infallible_panics);
    rng.err_code = crate::libapi::ERR_CODES[c.err_code as usize % crate::libapi::ERR_CODES.len()];
    let name = entry_name(c.entry);
    let tag = format!("set{}:{name}", p.id);
    let m = b"rng fault".to_vec();
    let ctx = [7u8, 7];
    let key_xi = [0x42u8; 32];
    st.eval();
    // outcome: Ok(bytes...) / Err / panic
    let outcome: Result<Result<Vec<Vec<u8>>, &'static str>, crate::engine::PanicInfo> = if c.entry < 2 {
        guarded(|| {
            let r = if c.entry == 0 { libr.keygen_with_rng(&mut rng) } else { libr.keygen_with_rng_modfn(&mut rng) };
            r.map(|(pk, sk)| vec![pk.to_bytes(), sk.to_bytes()])
        })
    } else {
        let (_, sk) = g("keygen_from_seed", || libr.keygen_from_seed(&key_xi))?;
        let mode = MODES[(c.entry - 2) as usize];
        guarded(|| sk.sign(&mut rng, &m, &ctx, mode).map(|s| vec![s]))
    };
    let any_fault_hit = rng.log.iter().any(|r| r.via == "try_fill_bytes" && !r.ok);
    let faulted = c.script.iter().any(|f| *f != Fault::None);
    if faulted {
        st.nontrivial(c);
    }
    st.class(&format!("requests={}", rng.requests()));
    match outcome {
        Err(pi) => {
            if pi.msg.contains("TestRng: infallible") {
                fail!(format!("infallible_rng_interface_used:{tag}"), "{tag}: the library called an infallible RNG method ({}); randomness must be requested through try_fill_bytes only", pi.msg);
            }
            Err(Fail::panic(name, &pi))
        }
        Ok(res) => {
            if rng.used_infallible() {
                fail!(format!("infallible_rng_interface_used:{tag}"), "{tag}: the library used an infallible RNG method ({:?})", rng.log.iter().map(|r| r.via).collect::<Vec<_>>());
            }
            match (any_fault_hit, res) {
                (true, Err(_)) => {
                    st.class("fault->Err");
                    Ok(())
                }
                (true, Ok(_)) => fail!(
                    format!("rng_failure_ignored:{tag}"),
                    "{tag}: the RNG reported failure (script {:?}, requests {:?}) but the call returned Ok",
                    c.script, rng.log.iter().map(|r| (r.len, r.ok)).collect::<Vec<_>>()
                ),
                (false, Err(e)) => fail!(format!("err_without_fault:{tag}"), "{tag}: returned Err({e}) although no request failed (requests {:?})", rng.log.iter().map(|r| (r.len, r.ok)).collect::<Vec<_>>()),
                (false, Ok(out)) => {
                    st.class("no_fault->Ok");
                    if rng.delivered != 32 {
                        fail!(format!("drew_not_32:{tag}"), "{tag}: drew {} bytes instead of 32", rng.delivered);
                    }
                    let drawn: [u8; 32] = core::array::from_fn(|i| data[i]);
                    if c.entry < 2 {
                        let (rpk, rsk) = rf::keygen_internal(&p, &drawn);
                        if out[0] != rpk || out[1] != rsk {
                            fail!(format!("keygen_not_function_of_draw:{tag}"), "{tag}: keys differ from KeyGen_internal of the 32 bytes drawn");
                        }
                    } else {
                        let (_, rsk) = rf::keygen_internal(&p, &key_xi);
                        let (rsig, _) = rf::sign(&p, &rsk, &m, &ctx, MODES[(c.entry - 2) as usize], &drawn, 100_000).expect("reference sign");
                        if out[0] != rsig {
                            fail!(format!("sig_not_function_of_draw:{tag}"), "{tag}: signature differs from FIPS 204 Sign with rnd = the 32 bytes drawn");
                        }
                    }
                    Ok(())
                }
            }
        }
    }
}

#[derive(Clone, Debug, Hash, Serialize, Deserialize)]
pub struct BitCase {
    pub set: u8,
    pub base: u64,
    /// 0 keygen, 1 sign pure, 2 hash sign
    pub op: u8,
    pub bit: u16,
}

fn base_draw(b: u64, seed: u64) -> [u8; 32] {
    match b {
        0 => [0u8; 32],
        1 => [0xFF; 32],
        _ => {
            let v = gen::prg_bytes(hash_of(&(seed, "c12-base", b)), "draw", 32);
            core::array::from_fn(|i| v[i])
        }
    }
}

pub fn check_bit(c: &BitCase, seed: u64, st: &mut Stats) -> CheckResult {
    let libr = libs()[c.set as usize % 3];
    let p = libr.p();
    let base = base_draw(c.base, seed);
    let mut flipped = base;
    flipped[(c.bit / 8) as usize] ^= 1 << (c.bit % 8);
    st.eval();
    st.nontrivial_enumerated += 1;
    let tag = format!("set{}", p.id);
    if c.op == 0 {
        let run = |d: &[u8; 32]| -> Result<(Vec<u8>, Vec<u8>), Fail> {
            let mut rng = TestRng::replay(d);
            match g("try_keygen_with_rng", || libr.keygen_with_rng(&mut rng))? {
                Ok((pk, sk)) => Ok((pk.to_bytes(), sk.to_bytes())),
                Err(e) => Err(Fail::new(format!("keygen_err:{tag}"), format!("{tag}: keygen failed: {e}"))),
            }
        };
        let (a, b) = (run(&base)?, run(&flipped)?);
        if a.0 == b.0 || a.1 == b.1 {
            fail!(format!("keygen_bit_ignored:{tag}"), "{tag}: flipping bit {} of the 32 bytes drawn by key generation leaves the {} unchanged", c.bit, if a.1 == b.1 { "private key" } else { "public key" });
        }
    } else {
        let mode = if c.op == 1 { Mode::Pure } else { MODES[1 + (c.bit as usize % 3)] };
        let (pk, sk) = g("keygen_from_seed", || libr.keygen_from_seed(&[9u8; 32]))?;
        let m = b"all randomness is used";
        let run = |d: &[u8; 32]| -> Result<Vec<u8>, Fail> {
            let mut rng = TestRng::replay(d);
            match g_sign(&*sk, &mut rng, m, &[1, 2, 3], mode) {
                Ok(Ok(s)) => Ok(s),
                Ok(Err(e)) => Err(Fail::new(format!("sign_err:{tag}"), format!("{tag}: signing failed: {e}"))),
                Err(pi) => Err(Fail::panic("sign", &pi)),
            }
        };
        let (a, b) = (run(&base)?, run(&flipped)?);
        if a == b {
            fail!(format!("sign_bit_ignored:{tag}:{}", if c.op == 1 { "pure" } else { "hash" }), "{tag} {}: flipping bit {} of rnd leaves the signature unchanged", mode.tag(), c.bit);
        }
        if !g_verify(&*pk, m, &b, &[1, 2, 3], mode)? {
            fail!(format!("sign_bit_invalid:{tag}"), "{tag}: signature with flipped rnd bit {} does not verify", c.bit);
        }
    }
    Ok(())
}

fn os_rng(rep: &mut Report) {
    let sub = "os_rng_freshness";
    for libr in libs() {
        let p = libr.p();
        let mut st = Stats::default();
        let r: CheckResult = (|| {
            let mut keys = Vec::new();
            for _ in 0..8 {
                match g("try_keygen", || libr.keygen_os())? {
                    Ok((pk, sk)) => keys.push((pk.to_bytes(), sk.to_bytes())),
                    Err(e) => fail!(format!("os_keygen_err:set{}", p.id), "set {}: try_keygen failed: {e}", p.id),
                }
                st.eval();
            }
            for i in 0..keys.len() {
                for j in 0..i {
                    if keys[i].0 == keys[j].0 || keys[i].1 == keys[j].1 {
                        fail!(format!("os_keygen_repeats:set{}", p.id), "set {}: try_keygen() returned the same key twice", p.id);
                    }
                }
            }
            let (pk, sk) = g("keygen_from_seed", || libr.keygen_from_seed(&[3u8; 32]))?;
            for mode in MODES {
                let mut sigs = Vec::new();
                for _ in 0..8 {
                    match g("try_sign", || sk.sign_os(b"fresh", &[], mode))? {
                        Ok(s) => sigs.push(s),
                        Err(e) => fail!(format!("os_sign_err:set{}", p.id), "set {}: try_sign failed: {e}", p.id),
                    }
                    st.eval();
                }
                for i in 0..sigs.len() {
                    if !g_verify(&*pk, b"fresh", &sigs[i], &[], mode)? {
                        fail!(format!("os_sign_invalid:set{}", p.id), "set {}: try_sign produced an invalid signature", p.id);
                    }
                    for j in 0..i {
                        if sigs[i] == sigs[j] {
                            fail!(format!("os_sign_repeats:set{}:{}", p.id, mode.tag()), "set {} {}: two calls of the OS-RNG signing function returned the same signature (randomness not fresh)", p.id, mode.tag());
                        }
                    }
                }
            }
            st.nontrivial(&p.id);
            Ok(())
        })();
        rep.stats(sub).merge(st);
        if let Err(f) = r {
            rep.violation(sub, f, json!({"set": p.id}));
        }
    }
}

// ---------------------------------------------------------------------------------------------
// Keys on which the signing loop runs to its iteration limit (an accepted private key with extreme t0):
// whatever the implementation does at that point, a failing generator still has to surface as Err and
// randomness is still requested through try_fill_bytes only.

#[derive(Clone, Debug, Hash, Serialize, Deserialize)]
pub struct ExCase {
    pub set: u8,
    /// 2 pure, 3..5 hash-sign (numbering of `entry_name`)
    pub entry: u8,
    pub script: [Fault; 3],
    /// message number (the search below looks for messages on which the loop really runs to its limit)
    #[serde(default)]
    pub msg: u32,
}

pub fn ex_msg(i: u32) -> Vec<u8> { if i == 0 { b"long loop".to_vec() } else { format!("long loop message {i}").into_bytes() } }

pub fn exhausting_key(p: &rf::Params) -> Vec<u8> {
    use crate::gen::{Pattern, Seed32, SkSpec};
    gen::build_sk(p, &SkSpec::Fields { rho: Seed32::Uniform(1), key: Seed32::Zero, tr_seed: 5, s1: Pattern::Random(6), s2: Pattern::AllZero, t0: Pattern::RandomExtreme(1), consistent: false }).sk
}

pub fn check_exhausting(c: &ExCase, st: &mut Stats) -> CheckResult {
    let libr = libs()[c.set as usize % 3];
    let p = libr.p();
    let name = entry_name(c.entry);
    let tag = format!("set{}:{name}:long_loop_key", p.id);
    let sk = match g_sk(libr, &exhausting_key(&p))? {
        Ok(k) => k,
        Err(_) => return Ok(()), // judged by C10
    };
    let data = gen::prg_bytes(if c.msg == 0 { u64::from(c.set) * 31 + u64::from(c.entry) } else { u64::from(c.entry) }, "c12-ex", 96);
    let mut rng = TestRng::with_faults(&data, c.script.to_vec(), true);
    let mode = MODES[(c.entry - 2) as usize % 4];
    st.eval();
    st.nontrivial(c);
    let t = std::time::Instant::now();
    let m = ex_msg(c.msg);
    let outcome = guarded(|| sk.sign(&mut rng, &m, &[1, 2, 3], mode));
    st.maximum(&format!("sign_ms_set{}", p.id), t.elapsed().as_millis() as i64);
    let any_fault_hit = rng.log.iter().any(|r| r.via == "try_fill_bytes" && !r.ok);
    st.class(&format!("requests={}", rng.requests()));
    match outcome {
        Err(pi) => {
            if pi.msg.contains("TestRng: infallible") {
                fail!(format!("infallible_rng_interface_used:{tag}"), "{tag}: the library called an infallible RNG method ({}) while signing with a key whose loop does not accept; randomness must be requested through try_fill_bytes only", pi.msg);
            }
            Err(Fail::panic(name, &pi))
        }
        Ok(res) => {
            st.class(if res.is_ok() { "returned Ok" } else { "returned Err" });
            if any_fault_hit && res.is_ok() {
                fail!(format!("rng_failure_ignored:{tag}"), "{tag}: the RNG reported failure (script {:?}, requests {:?}) but the call returned Ok", c.script, rng.log.iter().map(|r| (r.len, r.ok)).collect::<Vec<_>>());
            }
            if res.is_ok() && rng.delivered > 32 {
                fail!(format!("drew_more_than_32:{tag}"), "{tag}: {} bytes were drawn from the caller's generator (requests {:?}); FIPS 204 signing consumes one 32-byte rnd", rng.delivered, rng.log.iter().map(|r| (r.len, r.ok)).collect::<Vec<_>>());
            }
            Ok(())
        }
    }
}

const EX_SCRIPTS: [[Fault; 3]; 4] = [[Fault::None; 3], [Fault::None, Fault::ErrBefore, Fault::None], [Fault::None, Fault::ErrAfter(16), Fault::ErrBefore], [Fault::ErrBefore, Fault::None, Fault::None]];

fn exhausting_cases() -> Vec<ExCase> {
    let mut v = Vec::new();
    for set in 0..3u8 {
        for entry in 2..6u8 {
            for script in EX_SCRIPTS {
                v.push(ExCase { set, entry, script, msg: 0 });
            }
        }
    }
    v
}

/// The loop is exhausted only for a few per cent of (message, rnd) pairs even with the hostile key (ML-DSA-44 is the
/// most favourable set): search messages on which a healthy signing call returns Err, then run the fault scripts on
/// exactly those. (The search asks the library's internal interface, which takes rnd as an argument; on the unchanged
/// tree the answer is "rejection loop did not terminate".)
fn exhausted_loop_cases(tries: u32) -> (Vec<ExCase>, u32) {
    let mut out = Vec::new();
    let mut found = 0;
    for entry in [2u8, 3] {
        let hits = exhausting_messages(entry, tries);
        found += hits.len() as u32;
        for i in hits.into_iter().take(2) {
            for script in EX_SCRIPTS {
                out.push(ExCase { set: 0, entry, script, msg: i });
            }
        }
    }
    (out, found)
}

/// rnd used by the search below (and by the replays of what it finds)
pub fn ex_rnd(entry: u8) -> [u8; 32] {
    let data = gen::prg_bytes(u64::from(entry), "c12-ex", 96);
    core::array::from_fn(|k| data[k])
}

/// Numbers i in 1..=tries for which signing `ex_msg(i)` (context [1, 2, 3], rnd `ex_rnd(entry)`) with the hostile
/// ML-DSA-44 key runs the loop to its limit (also used by C16: an object dropped after such a call).
pub fn exhausting_messages(entry: u8, tries: u32) -> Vec<u32> {
    use rayon::prelude::*;
    let libr = libs()[0];
    let p = libr.p();
    let key = exhausting_key(&p);
    (1..=tries)
        .into_par_iter()
        .filter(|i| {
            let _wd = crate::engine::watch(|| format!("C12/long_loop search: entry {entry} message {i}"));
            let Ok(Ok(sk)) = guarded(|| libr.sk_from_bytes(&key)) else { return false };
            let rnd = ex_rnd(entry);
            let mode = MODES[(entry - 2) as usize % 4];
            // through the internal interface (Algorithm 7 on the formatted message with rnd given directly): no
            // generator is involved, so what an entry point does about its generator cannot hide the exhaustion
            let m_prime = rf::format_message(mode, &ex_msg(*i), &[1, 2, 3]);
            matches!(guarded(|| sk.internal_sign(&m_prime, &[], rnd)), Ok(Err(_)))
        })
        .collect()
}

/// What the OS-RNG entry points return as their FIRST results in a fresh process (one line per call).
pub fn os_rng_probe_lines() -> Vec<String> {
    use sha2::{Digest, Sha256};
    let mut out = Vec::new();
    for libr in libs() {
        let p = libr.p();
        let d = |b: &[u8]| hex::encode(Sha256::digest(b));
        match guarded(|| libr.keygen_os()) {
            Ok(Ok((pk, sk))) => out.push(format!("set={} try_keygen pk={} sk={}", p.id, d(&pk.to_bytes()), d(&sk.to_bytes()))),
            Ok(Err(e)) => out.push(format!("set={} try_keygen Err({e})", p.id)),
            Err(pi) => out.push(format!("set={} try_keygen panic {}", p.id, pi.key())),
        }
        if let Ok((_, sk)) = guarded(|| libr.keygen_from_seed(&[3u8; 32])) {
            for mode in MODES {
                match guarded(|| sk.sign_os(b"fresh", &[], mode)) {
                    Ok(Ok(s)) => out.push(format!("set={} try_sign {} sig={}", p.id, mode.tag(), d(&s))),
                    Ok(Err(e)) => out.push(format!("set={} try_sign {} Err({e})", p.id, mode.tag())),
                    Err(pi) => out.push(format!("set={} try_sign {} panic {}", p.id, mode.tag(), pi.key())),
                }
            }
        }
    }
    out
}

/// fork(): the process makes `warm` OS-RNG calls, forks, and parent and child each report their next OS-RNG results.
/// Must be called before any other thread exists in the process (vcheck handles the command first thing in main).
pub fn os_rng_fork_probe(warm: u32) -> String {
    use std::io::{Read, Write};
    for _ in 0..warm {
        let _ = guarded(|| libs()[0].keygen_os().is_ok());
    }
    let mut fds = [0i32; 2];
    if unsafe { libc::pipe(fds.as_mut_ptr()) } != 0 {
        return "pipe failed".into();
    }
    let pid = unsafe { libc::fork() };
    if pid < 0 {
        return "fork failed".into();
    }
    let mine = os_rng_probe_lines().join("\n");
    if pid == 0 {
        let mut w = unsafe { <std::fs::File as std::os::fd::FromRawFd>::from_raw_fd(fds[1]) };
        let _ = w.write_all(mine.as_bytes());
        drop(w);
        unsafe { libc::_exit(0) };
    }
    unsafe { libc::close(fds[1]) };
    let mut r = unsafe { <std::fs::File as std::os::fd::FromRawFd>::from_raw_fd(fds[0]) };
    let mut theirs = String::new();
    let _ = r.read_to_string(&mut theirs);
    let mut status = 0i32;
    unsafe { libc::waitpid(pid, &mut status, 0) };
    let mut out = String::new();
    for (a, b) in mine.lines().zip(theirs.lines()) {
        out.push_str(&format!("parent {a}\nchild {b}\n"));
    }
    out
}

fn os_rng_after_fork(rep: &mut Report) {
    let sub = "os_rng_after_fork";
    let Ok(exe) = std::env::current_exe() else { return };
    for warm in [1u32, 3, 5] {
        let out = match std::process::Command::new(&exe).args(["osrng-fork", &warm.to_string()]).output() {
            Ok(o) if o.status.success() => String::from_utf8_lossy(&o.stdout).to_string(),
            other => {
                rep.note(format!("{sub}: probe process failed ({:?}); skipped", other.map(|o| o.status)));
                return;
            }
        };
        let lines: Vec<&str> = out.lines().collect();
        let st = rep.stats(sub);
        st.evals(lines.len() as u64);
        st.nontrivial_enumerated += lines.len() as u64 / 2;
        for pair in lines.chunks(2) {
            if pair.len() == 2 && !pair[0].contains("Err(") && !pair[0].contains("panic") {
                let (a, b) = (pair[0].trim_start_matches("parent "), pair[1].trim_start_matches("child "));
                if a == b && !rep.violations.iter().any(|v| v.sub == sub) {
                    let what: String = a.split(' ').filter(|w| w.starts_with("set=") || !w.contains('=')).collect::<Vec<_>>().join(" ");
                    rep.violation(sub, Fail::new(format!("os_rng_identical_after_fork:{}", what.replace(' ', ":")), format!("{what}: parent and child of a fork() (after {warm} earlier OS-RNG call(s)) obtain the same result from the OS-RNG entry point")), json!({"probe": "vcheck osrng-fork", "warm_up_calls": warm}));
                }
            }
        }
    }
}

/// Fresh processes: the first OS-RNG results of three separately started processes must all differ
/// (a generator whose output is a function of a per-process counter passes every in-process test).
fn os_rng_across_processes(rep: &mut Report) {
    let sub = "os_rng_fresh_processes";
    let exe = match std::env::current_exe() {
        Ok(e) => e,
        Err(e) => {
            rep.note(format!("{sub}: cannot locate own executable ({e}); skipped"));
            return;
        }
    };
    let mut runs: Vec<Vec<String>> = Vec::new();
    for _ in 0..3 {
        match std::process::Command::new(&exe).arg("osrng-probe").output() {
            Ok(o) if o.status.success() => runs.push(String::from_utf8_lossy(&o.stdout).lines().map(str::to_string).collect()),
            other => {
                rep.note(format!("{sub}: probe process failed ({other:?}); skipped"));
                return;
            }
        }
    }
    let st = rep.stats(sub);
    st.evals(runs.iter().map(|r| r.len() as u64).sum());
    st.nontrivial_enumerated += runs[0].len() as u64;
    st.sample("probe", || json!(runs[0].iter().take(3).collect::<Vec<_>>()));
    let mut fails = Vec::new();
    for (li, line) in runs[0].iter().enumerate() {
        let same = runs[1..].iter().filter(|r| r.get(li) == Some(line)).count();
        if line.contains("Err(") || line.contains("panic") {
            continue; // judged by os_rng_freshness
        }
        if same > 0 {
            let what: String = line.split(' ').filter(|w| w.starts_with("set=") || !w.contains('=')).collect::<Vec<_>>().join(" ");
            fails.push((what.clone(), format!("{what}: the first result in a fresh process is identical in {} of 3 separately started processes (the OS-RNG entry point does not use fresh OS randomness)", same + 1)));
        }
    }
    for (k, w) in fails {
        if !rep.violations.iter().any(|v| v.sub == sub) {
            rep.violation(sub, Fail::new(format!("os_rng_repeats_across_processes:{}", k.replace(' ', ":")), w), json!({"probe": "vcheck osrng-probe, three processes"}));
        }
    }
}

pub fn run(ctx: &Ctx, rep: &mut Report) {
    rep.assume(ASSUME_REF);
    rep.assume("oracle on failure: if any request the library actually made was scripted to fail, the call must return Err without panicking; how many requests are made and of what size is recorded, not judged");
    rep.assume("OS-RNG freshness is judged by pairwise inequality of 8 results in one process and of the first results of 3 separately started processes (collision probability 2^-256 with a working OS RNG)");
    // complete enumeration of the fault space
    let ncodes = crate::libapi::ERR_CODES.len();
    let n = (3 * ENTRIES * 216 * 2 * ncodes) as u64;
    let seed = ctx.seed;
    let case_of = |i: u64| -> Case {
        let err_code = (i as usize % ncodes) as u8;
        let i = i as usize / ncodes;
        let s = i % 216;
        Case {
            err_code,
            set: (i / (ENTRIES * 216 * 2)) as u8,
            entry: ((i / (216 * 2)) % ENTRIES) as u8,
            infallible_panics: (i / 216) % 2 == 1,
            script: [FAULTS[s % 6], FAULTS[(s / 6) % 6], FAULTS[s / 36]],
            seed: hash_of(&(seed, "c12", i % 7)),
        }
    };
    run_sweep(rep, "fault_scripts", n, true, |i, st| {
        let c = case_of(i);
        if i % 311 == 0 {
            st.sample("script", || serde_json::to_value(&c).expect("ser"));
        }
        check(&c, st)
    }, |i| serde_json::to_value(case_of(i)).expect("ser"));
    // every bit of the draw influences the result
    let bases = u64::from(ctx.n(8, 64));
    let nb = 3 * bases * 3 * 256;
    let bit_case = |i: u64| -> BitCase { BitCase { set: (i / (bases * 3 * 256)) as u8, base: (i / (3 * 256)) % bases, op: ((i / 256) % 3) as u8, bit: (i % 256) as u16 } };
    run_sweep(rep, "bit_influence", nb, false, |i, st| {
        let c = bit_case(i);
        if i % 1999 == 0 {
            st.sample("bit", || serde_json::to_value(&c).expect("ser"));
        }
        check_bit(&c, seed, st)
    }, |i| {
        let mut v = serde_json::to_value(bit_case(i)).expect("ser");
        v["seed"] = json!(seed);
        v
    });
    os_rng(rep);
    os_rng_across_processes(rep);
    os_rng_after_fork(rep);
    let mut ex = exhausting_cases();
    let (more, found) = exhausted_loop_cases(ctx.n(96, 512));
    rep.note(format!("long_loop_key: {found} (entry point, message) pairs on which a healthy signing call with the hostile ML-DSA-44 key ran its loop to the limit; fault scripts replayed on {}", more.len() / EX_SCRIPTS.len()));
    rep.stats("long_loop_key").class_n("search:messages_with_exhausted_loop", u64::from(found));
    ex.extend(more);
    crate::engine::run_list(rep, "long_loop_key", &ex, check_exhausting);
}

pub fn replay(ctx: &Ctx, sub: &str, case: &Value) -> Option<CheckResult> {
    match sub {
        "fault_scripts" => Some(check(&from_case::<Case>(case), &mut Stats::default())),
        "long_loop_key" => Some(check_exhausting(&from_case::<ExCase>(case), &mut Stats::default())),
        "bit_influence" => {
            let seed = case["seed"].as_u64().unwrap_or(ctx.seed);
            let mut v = case.clone();
            let _ = v.as_object_mut().map(|o| o.remove("seed"));
            Some(check_bit(&from_case::<BitCase>(&v), seed, &mut Stats::default()))
        }
        _ => None,
    }
}
