//! C13 — no input can make the library panic (stateful API sequences; meant for the checked profile:
//! debug assertions and overflow checks on).

use super::*;
use crate::engine::{run_generated, run_list, Stats};
use crate::gen::sigs::{self, ForgeSpec, SigMut};
use crate::gen::{self, BytesSpec, Pattern, PkSpec, Seed32, SkSpec};
use crate::libapi::libs;
use crate::props::c02::{aligned_tuple, load_aligned_corpus, AlignedCase};
use crate::refmodel as rf;
use proptest::prelude::*;
use serde::{Deserialize, Serialize};
use serde_json::json;
use std::sync::OnceLock;

#[derive(Clone, Debug, Hash, Serialize, Deserialize)]
pub enum SkBytes {
    Spec(SkSpec),
    /// in-range s1/s2, everything else (rho, K, tr, t0) uniform
    RandomRest(SkSpec, u64),
    Uniform(u64),
    Zero,
    Ones,
    /// planted raw field values (possibly out of range)
    Faulty(SkSpec, Vec<(u32, u8)>),
    /// serialisation of a pool key with one bit flipped
    PoolBitFlip(u8, u32),
}

#[derive(Clone, Debug, Hash, Serialize, Deserialize)]
pub enum SigSrc {
    Pool(u8),
    Uniform(u64),
    Forge(ForgeSpec),
    Mutated(u8, Vec<SigMut>),
    /// aligned-residue corpus entry (its own public key, message and context are used)
    Aligned(u8),
}

#[derive(Clone, Debug, Hash, Serialize, Deserialize)]
pub enum Op {
    KeygenSeed(Seed32),
    KeygenRng(Seed32),
    SkFromBytes(SkBytes),
    PkFromBytes(PkSpec),
    Sign { sk: u8, msg: BytesSpec, ctx: BytesSpec, mode: u8, rnd: Seed32 },
    InternalSign { sk: u8, msg: BytesSpec, ctx: BytesSpec, rnd: Seed32 },
    Verify { pk: u8, sig: SigSrc, msg: BytesSpec, ctx: BytesSpec, mode: u8 },
    InternalVerify {
        pk: u8,
        sig: SigSrc,
        msg: BytesSpec,
        /// context argument of `_internal_verify` (any length)
        #[serde(default)]
        ctx: Option<BytesSpec>,
    },
    SkIntoBytes(u8),
    PkIntoBytes(u8),
    GetPublicKey(u8),
    CloneSk(u8),
    DropSk(u8),
    DropPk(u8),
}

#[derive(Clone, Debug, Hash, Serialize, Deserialize)]
pub struct Case {
    pub set: u8,
    pub ops: Vec<Op>,
}

fn any_ctx() -> impl Strategy<Value = BytesSpec> { prop_oneof![4 => gen::context().boxed(), 1 => gen::long_context().boxed()] }

fn sk_bytes() -> impl Strategy<Value = SkBytes> {
    prop_oneof![
        4 => gen::sk_spec().prop_map(SkBytes::Spec),
        3 => (gen::sk_spec(), any::<u64>()).prop_map(|(s, r)| SkBytes::RandomRest(s, r)),
        1 => any::<u64>().prop_map(SkBytes::Uniform),
        1 => Just(SkBytes::Zero),
        1 => Just(SkBytes::Ones),
        2 => (gen::sk_spec(), proptest::collection::vec((any::<u32>(), any::<u8>()), 1..4)).prop_map(|(s, f)| SkBytes::Faulty(s, f)),
        2 => (any::<u8>(), any::<u32>()).prop_map(|(i, b)| SkBytes::PoolBitFlip(i, b)),
    ]
}

fn sig_src() -> impl Strategy<Value = SigSrc> {
    prop_oneof![
        3 => any::<u8>().prop_map(SigSrc::Pool),
        1 => any::<u64>().prop_map(SigSrc::Uniform),
        3 => sigs::forge_spec(128, sigs::zval()).prop_map(SigSrc::Forge),
        3 => (any::<u8>(), proptest::collection::vec(sigs::sig_mut(), 1..3)).prop_map(|(i, m)| SigSrc::Mutated(i, m)),
        1 => any::<u8>().prop_map(SigSrc::Aligned),
    ]
}

fn op(max_msg: u32) -> impl Strategy<Value = Op> {
    prop_oneof![
        2 => gen::seed32().prop_map(Op::KeygenSeed),
        1 => gen::seed32().prop_map(Op::KeygenRng),
        5 => sk_bytes().prop_map(Op::SkFromBytes),
        3 => gen::pk_spec().prop_map(Op::PkFromBytes),
        5 => (any::<u8>(), gen::message(max_msg), any_ctx(), gen::mode(), gen::seed32()).prop_map(|(sk, msg, ctx, mode, rnd)| Op::Sign { sk, msg, ctx, mode, rnd }),
        1 => (any::<u8>(), gen::message(max_msg), any_ctx(), gen::seed32()).prop_map(|(sk, msg, ctx, rnd)| Op::InternalSign { sk, msg, ctx, rnd }),
        5 => (any::<u8>(), sig_src(), gen::message(max_msg), any_ctx(), gen::mode()).prop_map(|(pk, sig, msg, ctx, mode)| Op::Verify { pk, sig, msg, ctx, mode }),
        2 => (any::<u8>(), sig_src(), gen::message(max_msg), proptest::option::weighted(0.7, any_ctx())).prop_map(|(pk, sig, msg, ctx)| Op::InternalVerify { pk, sig, msg, ctx }),
        4 => any::<u8>().prop_map(Op::SkIntoBytes),
        2 => any::<u8>().prop_map(Op::PkIntoBytes),
        4 => any::<u8>().prop_map(Op::GetPublicKey),
        1 => any::<u8>().prop_map(Op::CloneSk),
        1 => any::<u8>().prop_map(Op::DropSk),
        1 => any::<u8>().prop_map(Op::DropPk),
    ]
}

pub fn strategy(max_len: usize, max_msg: u32) -> impl Strategy<Value = Case> {
    (0u8..3, proptest::collection::vec(op(max_msg), 2..max_len)).prop_map(|(set, ops)| Case { set, ops })
}

static CORPUS: OnceLock<Vec<AlignedCase>> = OnceLock::new();

fn corpus(root: &str) -> &'static [AlignedCase] {
    CORPUS.get_or_init(|| load_aligned_corpus(root).into_iter().map(|a| AlignedCase { aligned: a, mode: 0, hint_full: false }).collect())
}

fn set_field(p: &rf::Params, sk: &mut [u8], f: usize, v: u8) {
    let c = p.eta_bits();
    for b in 0..c {
        let bit = 128 * 8 + f * c + b;
        if (v >> b) & 1 == 1 {
            sk[bit / 8] |= 1 << (bit % 8);
        } else {
            sk[bit / 8] &= !(1 << (bit % 8));
        }
    }
}

struct Pools {
    sks: Vec<(Box<dyn SkObj>, bool)>,
    pks: Vec<(Box<dyn PkObj>, bool)>,
    sigs: Vec<Vec<u8>>,
}

pub fn check(root: &str, c: &Case, st: &mut Stats) -> CheckResult {
    let libr = libs()[c.set as usize % 3];
    let p = libr.p();
    let mut pools = Pools { sks: vec![], pks: vec![], sigs: vec![] };
    let mut nonhonest_call = false;
    let fail_at = |i: usize, o: &Op, f: Fail| -> Fail {
        let d = format!("{o:?}");
        Fail { key: f.key, what: format!("set {} op #{i} {}: {}", p.id, d.chars().take(120).collect::<String>(), f.what) }
    };
    for (i, o) in c.ops.iter().enumerate() {
        st.eval();
        let r: CheckResult = (|| {
            match o {
                Op::KeygenSeed(s) => {
                    let (pk, sk) = g("keygen_from_seed", || libr.keygen_from_seed(&s.bytes()))?;
                    pools.pks.push((pk, true));
                    pools.sks.push((sk, true));
                }
                Op::KeygenRng(s) => {
                    let mut rng = TestRng::replay(&s.bytes());
                    if let Ok((pk, sk)) = g("try_keygen_with_rng", || libr.keygen_with_rng(&mut rng))? {
                        pools.pks.push((pk, true));
                        pools.sks.push((sk, true));
                    }
                }
                Op::SkFromBytes(b) => {
                    let (bytes, honest) = match b {
                        SkBytes::Spec(s) => (gen::build_sk(&p, s).sk, matches!(s, SkSpec::Generated(_))),
                        SkBytes::RandomRest(s, r) => {
                            let mut sk = gen::build_sk(&p, s).sk;
                            let rr = gen::prg_bytes(*r, "rest", p.sk_len);
                            sk[..128].copy_from_slice(&rr[..128]);
                            let t0 = p.sk_t0_off();
                            sk[t0..].copy_from_slice(&rr[t0..]);
                            (sk, false)
                        }
                        SkBytes::Uniform(s) => (gen::prg_bytes(*s, "uniform-sk", p.sk_len), false),
                        SkBytes::Zero => (vec![0u8; p.sk_len], false),
                        SkBytes::Ones => (vec![0xFF; p.sk_len], false),
                        SkBytes::Faulty(s, faults) => {
                            let mut sk = gen::build_sk(&p, s).sk;
                            let nf = (p.l + p.k) * 256;
                            for (fi, v) in faults {
                                set_field(&p, &mut sk, ((u64::from(*fi) * nf as u64) >> 32) as usize, v % (1 << p.eta_bits()));
                            }
                            (sk, false)
                        }
                        SkBytes::PoolBitFlip(idx, bit) => {
                            if pools.sks.is_empty() {
                                return Ok(());
                            }
                            let k = &pools.sks[*idx as usize % pools.sks.len()].0;
                            let mut sk = g("sk.into_bytes", || k.to_bytes())?;
                            let b = ((u64::from(*bit) * (sk.len() as u64 * 8)) >> 32) as usize;
                            sk[b / 8] ^= 1 << (b % 8);
                            (sk, false)
                        }
                    };
                    if let Ok(k) = g_sk(libr, &bytes)? {
                        st.class(if honest { "sk_accepted:honest" } else { "sk_accepted:nonhonest" });
                        pools.sks.push((k, honest));
                    } else {
                        st.class("sk_rejected");
                    }
                }
                Op::PkFromBytes(s) => {
                    let b = gen::build_pk(&p, s);
                    let k = g_pk(libr, &b)?;
                    pools.pks.push((k, matches!(s, PkSpec::Generated(_))));
                }
                Op::Sign { sk, msg, ctx, mode, rnd } => {
                    if pools.sks.is_empty() {
                        return Ok(());
                    }
                    let (k, honest) = &pools.sks[*sk as usize % pools.sks.len()];
                    nonhonest_call |= !honest;
                    let mut rng = TestRng::replay(&rnd.bytes());
                    match g_sign(&**k, &mut rng, &msg.bytes(), &ctx.bytes(), gen::mode_of(*mode)) {
                        Ok(Ok(s)) => pools.sigs.push(s),
                        Ok(Err(_)) => {}
                        Err(pi) => return Err(Fail::panic("sign", &pi)),
                    }
                }
                Op::InternalSign { sk, msg, ctx, rnd } => {
                    if pools.sks.is_empty() {
                        return Ok(());
                    }
                    let (k, honest) = &pools.sks[*sk as usize % pools.sks.len()];
                    nonhonest_call |= !honest;
                    if let Ok(s) = g("_internal_sign", || k.internal_sign(&msg.bytes(), &ctx.bytes(), rnd.bytes()))? {
                        pools.sigs.push(s);
                    }
                }
                Op::Verify { .. } | Op::InternalVerify { .. } => {
                    let (pk, sig, msg, ctxb, modev, internal) = match o {
                        Op::Verify { pk, sig, msg, ctx, mode } => (pk, sig, msg, ctx.bytes(), gen::mode_of(*mode), false),
                        Op::InternalVerify { pk, sig, msg, ctx } => (pk, sig, msg, ctx.as_ref().map(BytesSpec::bytes).unwrap_or_default(), Mode::Pure, true),
                        _ => unreachable!(),
                    };
                    let mut m = msg.bytes();
                    let internal_ctx = ctxb.clone();
                    let mut cx = ctxb;
                    let mut md = modev;
                    // resolve signature bytes (and possibly the tuple that belongs to them)
                    let mut own_pk: Option<Vec<u8>> = None;
                    let sbytes: Vec<u8> = match sig {
                        SigSrc::Pool(i) => {
                            if pools.sigs.is_empty() {
                                gen::prg_bytes(u64::from(*i), "nosig", p.sig_len)
                            } else {
                                pools.sigs[*i as usize % pools.sigs.len()].clone()
                            }
                        }
                        SigSrc::Uniform(s) => gen::prg_bytes(*s, "uniform-sig", p.sig_len),
                        SigSrc::Forge(f) => {
                            let fb = sigs::build_forge(&p, f);
                            own_pk = Some(fb.tuple.pk.clone());
                            m = fb.tuple.m.clone();
                            cx = fb.tuple.ctx.clone();
                            md = fb.tuple.mode;
                            fb.tuple.sig
                        }
                        SigSrc::Mutated(i, muts) => {
                            let mut s = if pools.sigs.is_empty() { gen::prg_bytes(u64::from(*i), "nosig", p.sig_len) } else { pools.sigs[*i as usize % pools.sigs.len()].clone() };
                            for mu in muts {
                                s = sigs::apply_mut(&p, &s, mu);
                            }
                            s
                        }
                        SigSrc::Aligned(i) => {
                            let cands: Vec<&AlignedCase> = corpus(root).iter().filter(|a| a.aligned.set == p.id).collect();
                            if cands.is_empty() {
                                gen::prg_bytes(u64::from(*i), "noaligned", p.sig_len)
                            } else {
                                let t = aligned_tuple(cands[*i as usize % cands.len()]);
                                own_pk = Some(t.pk.clone());
                                m = t.m.clone();
                                cx = t.ctx.clone();
                                md = t.mode;
                                st.class("verify:aligned_residue_signature");
                                t.sig
                            }
                        }
                    };
                    let tmp;
                    let k: &dyn PkObj = if let Some(b) = &own_pk {
                        tmp = g_pk(libr, b)?;
                        nonhonest_call = true;
                        &*tmp
                    } else {
                        if pools.pks.is_empty() {
                            return Ok(());
                        }
                        let (k, honest) = &pools.pks[*pk as usize % pools.pks.len()];
                        nonhonest_call |= !honest;
                        &**k
                    };
                    let v = if internal { g("_internal_verify", || k.internal_verify(&m, &sbytes, &internal_ctx))? } else { g_verify(k, &m, &sbytes, &cx, md)? };
                    st.class(if v { "verify:true" } else { "verify:false" });
                }
                Op::SkIntoBytes(i) => {
                    if pools.sks.is_empty() {
                        return Ok(());
                    }
                    let (k, honest) = &pools.sks[*i as usize % pools.sks.len()];
                    nonhonest_call |= !honest;
                    let _ = g("sk.into_bytes", || k.to_bytes())?;
                }
                Op::PkIntoBytes(i) => {
                    if pools.pks.is_empty() {
                        return Ok(());
                    }
                    let (k, honest) = &pools.pks[*i as usize % pools.pks.len()];
                    nonhonest_call |= !honest;
                    let _ = g("pk.into_bytes", || k.to_bytes())?;
                }
                Op::GetPublicKey(i) => {
                    if pools.sks.is_empty() {
                        return Ok(());
                    }
                    let (k, honest) = &pools.sks[*i as usize % pools.sks.len()];
                    nonhonest_call |= !honest;
                    let pk = g("get_public_key", || k.public_key())?;
                    let h = *honest;
                    pools.pks.push((pk, h));
                }
                Op::CloneSk(i) => {
                    if pools.sks.is_empty() {
                        return Ok(());
                    }
                    let (k, honest) = &pools.sks[*i as usize % pools.sks.len()];
                    let c2 = g("sk.clone", || k.clone_box())?;
                    let h = *honest;
                    pools.sks.push((c2, h));
                }
                Op::DropSk(i) => {
                    if !pools.sks.is_empty() {
                        let idx = *i as usize % pools.sks.len();
                        let k = pools.sks.remove(idx);
                        g("drop(sk)", move || drop(k))?;
                    }
                }
                Op::DropPk(i) => {
                    if !pools.pks.is_empty() {
                        let idx = *i as usize % pools.pks.len();
                        let k = pools.pks.remove(idx);
                        g("drop(pk)", move || drop(k))?;
                    }
                }
            }
            Ok(())
        })();
        if let Err(f) = r {
            return Err(fail_at(i, o, f));
        }
    }
    if nonhonest_call {
        st.nontrivial(c);
        st.class("sequence:with_nonhonest_object");
    }
    st.sample(&format!("set{}:len{}", p.id, c.ops.len().min(9)), || json!({"set": p.id, "ops": c.ops.iter().map(|o| format!("{o:?}").chars().take(90).collect::<String>()).collect::<Vec<_>>()}));
    Ok(())
}

/// Directed sequences: the shapes most likely to trip an internal self-check.
fn directed(ctx: &Ctx) -> Vec<Case> {
    let mut v = Vec::new();
    for set in 0..3u8 {
        let inconsistent = |s1: Pattern, s2: Pattern, t0: Pattern| SkSpec::Fields { rho: Seed32::Uniform(1), key: Seed32::Zero, tr_seed: 5, s1, s2, t0, consistent: false };
        let sign = |sk| Op::Sign { sk, msg: BytesSpec { len: 33, constant: None, seed: 1 }, ctx: BytesSpec { len: 3, constant: Some(1), seed: 0 }, mode: 0, rnd: Seed32::Zero };
        for (s1, s2, t0) in [
            (Pattern::AllMax, Pattern::AllMin, Pattern::AllMax),
            (Pattern::AllMin, Pattern::AllMax, Pattern::AllMin),
            (Pattern::Alternating(0), Pattern::Alternating(1), Pattern::Alternating(0)),
            (Pattern::AllZero, Pattern::AllZero, Pattern::AllZero),
            (Pattern::Random(7), Pattern::Random(8), Pattern::Random(9)),
            (Pattern::SingleMax(0), Pattern::SingleMin(255), Pattern::AllMax),
            (Pattern::Alternating(7), Pattern::Alternating(7), Pattern::Alternating(7)),
        ] {
            let spec = inconsistent(s1, s2, t0);
            v.push(Case { set, ops: vec![Op::SkFromBytes(SkBytes::Spec(spec)), sign(0), Op::SkIntoBytes(0), Op::GetPublicKey(0), Op::PkIntoBytes(0), sign(0), Op::Verify { pk: 0, sig: SigSrc::Pool(0), msg: BytesSpec { len: 33, constant: None, seed: 1 }, ctx: BytesSpec { len: 3, constant: Some(1), seed: 0 }, mode: 0 }] });
        }
        // keys whose t0 makes (practically) every candidate fail: signing must end with an error, not a panic
        for (s2p, t0p) in [(Pattern::AllZero, Pattern::RandomExtreme(1)), (Pattern::RandomExtreme(2), Pattern::RandomExtreme(3)), (Pattern::Random(4), Pattern::RandomExtreme(5))] {
            let spec = inconsistent(Pattern::Random(6), s2p, t0p);
            v.push(Case { set, ops: vec![Op::SkFromBytes(SkBytes::Spec(spec.clone())), sign(0), Op::SkIntoBytes(0)] });
            v.push(Case { set, ops: vec![Op::SkFromBytes(SkBytes::Spec(spec)), Op::InternalSign { sk: 0, msg: BytesSpec { len: 9, constant: None, seed: 2 }, ctx: BytesSpec::empty(), rnd: Seed32::Ones }] });
        }
        for b in [SkBytes::Zero, SkBytes::Ones, SkBytes::Uniform(ctx.seed)] {
            v.push(Case { set, ops: vec![Op::SkFromBytes(b), sign(0), Op::SkIntoBytes(0), Op::GetPublicKey(0), Op::PkIntoBytes(0)] });
        }
        // honest key with one bit flipped anywhere
        for k in 0..ctx.n(24, 400) {
            let bit = (crate::engine::hash_of(&(ctx.seed, "c13-flip", set, k)) >> 16) as u32;
            v.push(Case { set, ops: vec![Op::KeygenSeed(Seed32::Repeated(1)), Op::SkFromBytes(SkBytes::PoolBitFlip(0, bit)), sign(1), Op::SkIntoBytes(1), Op::GetPublicKey(1), Op::PkIntoBytes(1)] });
        }
        for i in 0..4u8 {
            v.push(Case { set, ops: vec![Op::Verify { pk: 0, sig: SigSrc::Aligned(i), msg: BytesSpec::empty(), ctx: BytesSpec::empty(), mode: 0 }] });
        }
        for pkspec in [PkSpec::AllZero, PkSpec::AllOnes, PkSpec::Fields { rho: Seed32::Zero, t1: Pattern::AllMax }, PkSpec::Fields { rho: Seed32::Ones, t1: Pattern::Alternating(0) }] {
            v.push(Case { set, ops: vec![Op::PkFromBytes(pkspec), Op::PkIntoBytes(0), Op::Verify { pk: 0, sig: SigSrc::Uniform(3), msg: BytesSpec::empty(), ctx: BytesSpec::empty(), mode: 1 },
                Op::Verify { pk: 0, sig: SigSrc::Forge(ForgeSpec { rho: Seed32::Zero, seed: 1, zkind: sigs::ZKind::AllExtreme, plants: vec![], hkind: sigs::HKind::Full, msg: BytesSpec::empty(), ctx: BytesSpec::empty(), mode: 0 }), msg: BytesSpec::empty(), ctx: BytesSpec::empty(), mode: 0 }] });
        }
    }
    v
}

/// Rare-seed panics: key generation, one signature and its verification for many seeds.
fn seed_sweep(ctx: &Ctx, rep: &mut Report) {
    let n = u64::from(ctx.n(150_000, 3_000_000));
    let seed = ctx.seed;
    crate::engine::run_sweep(
        rep,
        "seed_sweep",
        n,
        false,
        |i, st| {
            let libr = libs()[(i % 3) as usize];
            let v = gen::prg_bytes(crate::engine::hash_of(&(seed, "c13-sweep", i)), "xi", 64);
            let xi: [u8; 32] = core::array::from_fn(|k| v[k]);
            let rnd: [u8; 32] = core::array::from_fn(|k| v[32 + k]);
            st.eval();
            st.nontrivial_enumerated += 1;
            let (pk, sk) = g("keygen_from_seed", || libr.keygen_from_seed(&xi))?;
            let mode = gen::mode_of((i / 3 % 4) as u8);
            let mut rng = TestRng::replay(&rnd);
            let sig = match g_sign(&*sk, &mut rng, &v[..(i % 40) as usize], &v[40..40 + (i % 5) as usize], mode) {
                Ok(Ok(s)) => s,
                Ok(Err(_)) => return Ok(()),
                Err(pi) => return Err(Fail::panic("sign", &pi)),
            };
            let _ = g_verify(&*pk, &v[..(i % 40) as usize], &sig, &v[40..40 + (i % 5) as usize], mode)?;
            if i % 7 == 0 {
                let _ = g("get_public_key", || sk.public_key())?;
                let _ = g("sk.into_bytes", || sk.to_bytes())?;
            }
            Ok(())
        },
        |i| json!({"index": i, "seed": seed}),
    );
}

/// Key generation alone for many seeds, weighted towards the larger parameter sets (more coefficients per key):
/// internal self-checks that only a rare seed trips (1e-5 per key and below).
fn keygen_sweep(ctx: &Ctx, rep: &mut Report) {
    let n = u64::from(ctx.n(600_000, 6_000_000));
    let seed = ctx.seed;
    crate::engine::run_sweep(
        rep,
        "keygen_sweep",
        n,
        false,
        |i, st| {
            let libr = libs()[match i % 20 { 0 => 0, 1..=3 => 1, _ => 2 }];
            let v = gen::prg_bytes(crate::engine::hash_of(&(seed, "c13-kg", i)), "xi", 32);
            let xi: [u8; 32] = core::array::from_fn(|k| v[k]);
            st.eval();
            st.nontrivial_enumerated += 1;
            let (pk, sk) = g("keygen_from_seed", || libr.keygen_from_seed(&xi))?;
            if i % 16 == 0 {
                let _ = g("sk.into_bytes", || sk.to_bytes())?;
                let _ = g("pk.into_bytes", || pk.to_bytes())?;
            }
            Ok(())
        },
        |i| json!({"index": i, "seed": seed}),
    );
}

/// The constant-time test entry point (`dudect_keygen_sign_with_rng`, cargo feature `dudect`) is a public function
/// too: key generation + signing with rejection neutralised, for many RNG values.
#[cfg(feature = "dudect")]
fn dudect_sweep(ctx: &Ctx, rep: &mut Report) {
    let n = u64::from(ctx.n(9000, 150_000));
    let seed = ctx.seed;
    crate::engine::run_sweep(
        rep,
        "dudect_keygen_sign_sweep",
        n,
        false,
        |i, st| {
            let libr = libs()[(i % 3) as usize];
            let v = gen::prg_bytes(crate::engine::hash_of(&(seed, "c13-dudect", i)), "rng", 64);
            st.eval();
            st.nontrivial_enumerated += 1;
            let mut rng = TestRng::replay(&v);
            let _ = g("dudect_keygen_sign_with_rng", || libr.dudect_keygen_sign(&mut rng, &v[..(i % 30) as usize]).is_ok())?;
            Ok(())
        },
        |i| json!({"index": i, "seed": seed}),
    );
}

pub fn run(ctx: &Ctx, rep: &mut Report) {
    rep.assume("built with debug-assertions and overflow-checks on (checked profile); a panic anywhere inside a public API call is a violation; a hang is reported as inconclusive by the watchdog of ./check");
    rep.assume("a non-terminating signing loop would surface as the u16 counter overflow panic after at most 16384 iterations");
    let root = ctx.root.clone();
    let (max_len, max_msg) = if ctx.quick() { (9, 2048) } else { (25, 65_536) };
    let d = directed(ctx);
    run_list(rep, "directed", &d, |c, st| check(&root, c, st));
    seed_sweep(ctx, rep);
    keygen_sweep(ctx, rep);
    #[cfg(feature = "dudect")]
    dudect_sweep(ctx, rep);
    let sib = crate::props::c02::load_sib_corpus(&ctx.root);
    run_list(rep, "sample_in_ball_extremes", &sib, crate::props::c02::check_sib);
    run_generated(ctx, rep, "sequences", ctx.n(24_000, 400_000), || strategy(max_len, max_msg), |c, st| check(&root, c, st));
}

pub fn replay(ctx: &Ctx, sub: &str, case: &Value) -> Option<CheckResult> {
    if sub == "sample_in_ball_extremes" {
        return Some(crate::props::c02::check_sib(&from_case(case), &mut Stats::default()));
    }
    matches!(sub, "sequences" | "directed").then(|| check(&ctx.root, &from_case::<Case>(case), &mut Stats::default()))
}
