//! C15 — coefficient arithmetic is exact on its whole domain (exhaustive sweeps through the hooks).
//!
//! Oracle: the mathematical definition evaluated with i64/i128 and `rem_euclid` (refmodel), plus
//! the documented output range. In the checked profile the crate's own `debug_assert!`s and the
//! overflow checks act as a second oracle (a panic is a violation).

use super::*;
use crate::engine::{guarded, Stats};
use crate::libapi::P32;
use crate::refmodel as rf;
use fips204::verif_hooks as hk;
use rayon::prelude::*;
use serde_json::json;

const Q: i64 = rf::Q;
const G44: i64 = (Q - 1) / 88;
const G65: i64 = (Q - 1) / 32;
/// documented precondition of partial_reduce32 / full_reduce32 / center_mod / decompose
const PRE32: i64 = 2_143_289_344;

/// Sweep `f` over every element of `ranges` (inclusive-exclusive i64 ranges), in blocks executed
/// under one panic guard each; on a failing block the block is re-run element-wise to find the
/// smallest failing element.
fn sweep(rep: &mut Report, sub: &str, ranges: &[(i64, i64)], exhaustive: bool, f: impl Fn(i64) -> Result<(), String> + Sync) {
    const BLOCK: i64 = 1 << 16;
    let mut blocks: Vec<(i64, i64)> = Vec::new();
    for &(lo, hi) in ranges {
        let mut a = lo;
        while a < hi {
            let b = (a + BLOCK).min(hi);
            blocks.push((a, b));
            a = b;
        }
    }
    let total: u64 = blocks.iter().map(|(a, b)| (b - a) as u64).sum();
    let fails: Vec<(i64, Fail)> = blocks
        .par_iter()
        .filter_map(|&(a, b)| {
            let r = guarded(|| {
                for x in a..b {
                    if let Err(e) = f(x) {
                        return Some((x, e));
                    }
                }
                None
            });
            match r {
                Ok(None) => None,
                Ok(Some((x, e))) => Some((x, Fail::new(format!("{sub}:wrong"), format!("{sub}[element {x}]: {e}")))),
                Err(_) => {
                    // locate the panicking element
                    for x in a..b {
                        if let Err(p) = guarded(|| f(x)) {
                            return Some((x, Fail { key: format!("{sub}:{}", p.key()), what: format!("{sub}({x}) panicked at {}: {}", p.loc, p.msg) }));
                        }
                    }
                    Some((a, Fail::new(format!("{sub}:unstable_panic"), "panic in block did not reproduce element-wise")))
                }
            }
        })
        .collect();
    let st = rep.stats(sub);
    st.evals(total);
    st.nontrivial_enumerated += total;
    let mut fails = fails;
    fails.sort_by_key(|(x, _)| *x);
    for (x, f) in fails.into_iter().take(4) {
        if !rep.violations.iter().any(|v| v.sub == sub && v.key == f.key) {
            rep.violation(sub, f, json!({"x": x}));
        }
    }
    let _ = rep.exhaustive.insert(sub.to_string(), exhaustive);
    rep.stats(sub).sample("ranges", || json!(ranges.iter().map(|(a, b)| format!("[{a}, {b})")).collect::<Vec<_>>()));
}

fn check_decompose(g2: i64, r: i64) -> Result<(), String> {
    let (e1, e0) = rf::decompose(g2, r);
    let (r1, r0) = hk::decompose(g2 as i32, r as i32);
    if (i64::from(r1), i64::from(r0)) != (e1, e0) {
        return Err(format!("gamma2={g2}: decompose({r}) gives ({r1}, {r0}), FIPS 204 Decompose gives ({e1}, {e0})"));
    }
    let hb = hk::high_bits(g2 as i32, r as i32);
    let lb = hk::low_bits(g2 as i32, r as i32);
    if i64::from(hb) != e1 || i64::from(lb) != e0 {
        return Err(format!("gamma2={g2}: high_bits/low_bits({r}) give ({hb}, {lb}), expected ({e1}, {e0})"));
    }
    Ok(())
}

fn check_reduce32(a: i64) -> Result<(), String> {
    let x = a as i32;
    let pr = i64::from(hk::partial_reduce32(x));
    if (pr - a).rem_euclid(Q) != 0 || pr.abs() >= Q {
        return Err(format!("partial_reduce32({a}) = {pr}: not congruent or |res| >= q"));
    }
    let fr = i64::from(hk::full_reduce32(x));
    if fr != a.rem_euclid(Q) {
        return Err(format!("full_reduce32({a}) = {fr}, expected {}", a.rem_euclid(Q)));
    }
    let cm = i64::from(hk::center_mod(x));
    if cm != rf::mod_pm(a, Q) {
        return Err(format!("center_mod({a}) = {cm}, expected {}", rf::mod_pm(a, Q)));
    }
    Ok(())
}

const INV2_32: i64 = 8_265_825; // 2^-32 mod q, verified at start of run()

fn check_mont(a: i64) -> Result<(), String> {
    let r = i64::from(hk::mont_reduce(a));
    let expect = ((i128::from(a).rem_euclid(i128::from(Q)) as i64) * INV2_32).rem_euclid(Q);
    if r.rem_euclid(Q) != expect || r.abs() >= Q {
        return Err(format!("mont_reduce({a}) = {r}: expected a value congruent to {expect} with |res| < q"));
    }
    Ok(())
}

pub fn run(ctx: &Ctx, rep: &mut Report) {
    rep.assume("oracle: mathematical definitions of FIPS 204 Algorithms 14, 15, 35-40 and of mod q / mod+- evaluated in i64/i128 (refmodel), plus the documented output ranges");
    rep.assume("input ranges are the documented preconditions (|a| < 2143289344 for the 32-bit reductions; mont_reduce on -2^31 q <= a <= 2^31 q - 1, the intersection of the documented and the asserted range; partial_reduce64 only on x*2^32 with |x| < 67058539, the shape to_mont supplies)");
    assert_eq!((INV2_32 as i128 * (1i128 << 32)).rem_euclid(Q as i128), 1, "harness: 2^-32 mod q");
    let quick = ctx.quick();

    // ---- Power2Round: every r in [0, q), 256 values per call ----
    {
        let sub = "power2round";
        let calls = (Q as u64).div_ceil(256);
        crate::engine::run_sweep(
            rep,
            sub,
            calls,
            true,
            |i, st| {
                let base = i as i64 * 256;
                let poly: P32 = core::array::from_fn(|j| ((base + j as i64).min(Q - 1)) as i32);
                let (r1, r0) = g("power2round", || hk::power2round::<1>(&[poly]))?;
                for j in 0..256 {
                    let r = i64::from(poly[j]);
                    let (e1, e0) = rf::power2round(r);
                    if (i64::from(r1[0][j]), i64::from(r0[0][j])) != (e1, e0) {
                        return Err(Fail::new("power2round:wrong", format!("power2round({r}) = ({}, {}), FIPS 204 gives ({e1}, {e0})", r1[0][j], r0[0][j])));
                    }
                }
                st.evals(256);
                st.nontrivial_enumerated += 256;
                Ok(())
            },
            |i| json!({"r_base": i * 256}),
        );
    }

    // ---- Decompose / HighBits / LowBits ----
    for (name, g2) in [("decompose_g44", G44), ("decompose_g65_87", G65)] {
        // every r the callers supply: (-q, 2q]
        sweep(rep, &format!("{name}:callers_range"), &[(-Q + 1, 2 * Q + 1)], true, |r| check_decompose(g2, r));
        sweep(rep, &format!("{name}:precondition_range"), &[(-PRE32 + 1, PRE32)], true, |r| check_decompose(g2, r));
    }

    // ---- UseHint: every r in [0, q) x h x gamma2 (and the callers' range of r) ----
    for (name, g2) in [("use_hint_g44", G44), ("use_hint_g65_87", G65)] {
        sweep(rep, name, &[(0, 2 * Q)], true, |x| {
            let (h, r) = (x / Q, x % Q);
            let e = rf::use_hint(g2, h, r);
            let got = i64::from(hk::use_hint(g2 as i32, h as i32, r as i32));
            if got != e {
                return Err(format!("gamma2={g2}: use_hint(h={h}, r={r}) = {got}, FIPS 204 UseHint gives {e}"));
            }
            Ok(())
        });
    }

    // ---- MakeHint(z, r): r in (-q, q) x structured z (shape of the caller: z = q - ct0 in (0, q]) ----
    for (name, g2) in [("make_hint_g44", G44), ("make_hint_g65_87", G65)] {
        let zs: Vec<i64> = vec![1, 2, g2 - 1, g2, g2 + 1, 2 * g2 - 1, 2 * g2, 2 * g2 + 1, Q - g2 - 1, Q - g2, Q - g2 + 1, Q - 2, Q - 1, Q, Q / 2, Q / 2 + 1];
        let nz = zs.len() as i64;
        let span = 2 * Q - 1;
        let stride: i64 = 1;
        let n = nz * (span / stride + 1);
        sweep(rep, name, &[(0, n)], true, |x| {
            let z = zs[(x % nz) as usize];
            let r = -Q + 1 + ((x / nz) * stride).min(span - 1);
            let e = rf::make_hint(g2, z, r);
            let got = hk::make_hint(g2 as i32, z as i32, r as i32);
            if got != e {
                return Err(format!("gamma2={g2}: make_hint(z={z}, r={r}) = {got}, FIPS 204 MakeHint gives {e}"));
            }
            Ok(())
        });
        // random pairs in the callers' ranges
        let seed = ctx.seed;
        let nrand = i64::from(ctx.n(4_000_000, 400_000_000));
        sweep(rep, &format!("{name}:random_pairs"), &[(0, nrand)], false, |x| {
            let h = crate::engine::hash_of(&(seed, name, x));
            let z = 1 + (h % Q as u64) as i64;
            let r = -Q + 1 + ((h >> 24) % (2 * Q - 1) as u64) as i64;
            let e = rf::make_hint(g2, z, r);
            let got = hk::make_hint(g2 as i32, z as i32, r as i32);
            if got != e {
                return Err(format!("gamma2={g2}: make_hint(z={z}, r={r}) = {got}, FIPS 204 MakeHint gives {e}"));
            }
            Ok(())
        });
    }

    // ---- 32-bit reductions and mod+- ----
    sweep(rep, "reduce32:precondition_range", &[(-PRE32 + 1, PRE32)], true, check_reduce32);

    // ---- partial_reduce64(x << 32), the shape to_mont supplies ----
    {
        let lim = 67_058_539i64;
        sweep(rep, "partial_reduce64:x<<32", &[(-lim + 1, lim)], true, |x| {
            let a = x << 32;
            let r = i64::from(hk::partial_reduce64(a));
            if (i128::from(r) - i128::from(a)).rem_euclid(i128::from(Q)) != 0 || r.abs() >= 2 * Q {
                return Err(format!("partial_reduce64({x} << 32) = {r}: not congruent or |res| >= 2q"));
            }
            Ok(())
        });
    }

    // ---- Montgomery reduction ----
    {
        let lo = -17_996_808_470_921_216i64; // -2^31 q (documented lower end)
        let hi = 17_996_808_470_921_215i64; // 2^31 q - 1 (upper end asserted by the crate)
        let his: Vec<i64> = {
            let (hlo, hhi) = (lo >> 32, hi >> 32);
            let mut v = vec![hlo, hlo + 1, hlo + 2, -2, -1, 0, 1, 2, hhi - 2, hhi - 1, hhi];
            for k in 0..64i64 {
                v.push(hlo + (hhi - hlo) * k / 64 + (crate::engine::hash_of(&(ctx.seed, "mont-hi", k)) % 4096) as i64);
            }
            v.into_iter().filter(|h| *h >= hlo && *h <= hhi).collect()
        };
        let nh = his.len() as i64;
        let lo_step: i64 = if quick { 1 << 5 } else { 1 };
        let nlo = (1i64 << 32) / lo_step;
        let off = if quick { (crate::engine::hash_of(&(ctx.seed, "mont-off")) % lo_step as u64) as i64 } else { 0 };
        sweep(rep, "mont_reduce:hi_x_lo", &[(0, nh * nlo)], !quick, |x| {
            let a = (his[(x % nh) as usize] << 32) + (x / nh) * lo_step + off;
            if a < lo || a > hi {
                return Ok(());
            }
            check_mont(a)
        });
        // products of every zeta table entry with extreme and structured 32-bit operands
        let zt = hk::zeta_table_mont();
        let ws: Vec<i64> = {
            let mut w = vec![0, 1, -1, Q - 1, -(Q - 1), Q, -Q, 2 * Q, -2 * Q, PRE32 - 1, -(PRE32 - 1), i64::from(i32::MAX), i64::from(i32::MIN) + 1];
            for k in 0..4096i64 {
                w.push(((crate::engine::hash_of(&(ctx.seed, "mont-w", k)) % (2 * PRE32 as u64)) as i64) - PRE32);
            }
            w
        };
        let nw = ws.len() as i64;
        sweep(rep, "mont_reduce:zeta_products", &[(0, 256 * nw * 2)], false, |x| {
            let sign = if x % 2 == 0 { 1 } else { -1 };
            let z = i64::from(zt[((x / 2) % 256) as usize]) * sign;
            let w = ws[((x / 512) % nw) as usize];
            let a = z * w;
            if a < lo || a > hi {
                return Ok(());
            }
            check_mont(a)
        });
    }

    // ---- CoeffFromThreeBytes: all 2^24 inputs; CoeffFromHalfByte: 16 x {2, 4} ----
    sweep(rep, "coeff_from_three_bytes", &[(0, 1 << 24)], true, |x| {
        let b = [(x & 0xFF) as u8, ((x >> 8) & 0xFF) as u8, ((x >> 16) & 0xFF) as u8];
        let e = rf::coeff_from_three_bytes(b[0], b[1], b[2]);
        let got = hk::coeff_from_three_bytes::<false>(b).ok().map(i64::from);
        if got != e {
            return Err(format!("coeff_from_three_bytes({b:02x?}) = {got:?}, FIPS 204 gives {e:?}"));
        }
        Ok(())
    });
    sweep(rep, "coeff_from_half_byte", &[(0, 32)], true, |x| {
        let (eta, b) = (if x < 16 { 2 } else { 4 }, (x % 16) as u8);
        let e = rf::coeff_from_half_byte(eta, b);
        let got = hk::coeff_from_half_byte::<false>(eta as i32, b).ok().map(i64::from);
        if got != e {
            return Err(format!("coeff_from_half_byte(eta={eta}, b={b}) = {got:?}, FIPS 204 gives {e:?}"));
        }
        Ok(())
    });
    let _ = Stats::default();

    // ---- the consequence clause: whole operations on many seeds, and on seeds whose sampler streams are rare ----
    let mut cases: Vec<PipeCase> = rare_seed_cases().into_iter().map(|(set, i)| PipeCase { set, seed: crate::gen::Seed32::RareSampler(i) }).collect();
    let n_rare = cases.len();
    for i in 0..u64::from(ctx.n(6000, 120_000)) {
        cases.push(PipeCase { set: (i % 3) as u8, seed: crate::gen::Seed32::Uniform(crate::engine::hash_of(&(ctx.seed, "c15-pipe", i))) });
    }
    crate::engine::run_list(rep, "pipeline", &cases, check_pipeline);
    rare_seed_maxima(rep.stats("pipeline"));
    rep.note(format!("pipeline: {n_rare} corpus seeds with rare sampler events + {} uniform seeds", cases.len() - n_rare));
}

#[derive(Clone, Debug, Hash, serde::Serialize, serde::Deserialize)]
pub struct PipeCase {
    pub set: u8,
    pub seed: crate::gen::Seed32,
}

/// key generation, public-key derivation, one signature and its verification against the reference
pub fn check_pipeline(c: &PipeCase, st: &mut Stats) -> CheckResult {
    let libr = crate::libapi::libs()[c.set as usize % 3];
    let p = libr.p();
    let xi = c.seed.bytes();
    let (rpk, rsk) = rf::keygen_internal(&p, &xi);
    let (pk, sk) = g("keygen_from_seed", || libr.keygen_from_seed(&xi))?;
    st.eval();
    st.nontrivial(c);
    st.class(&format!("set{}", p.id));
    if g("pk.into_bytes", || pk.to_bytes())? != rpk || g("sk.into_bytes", || sk.to_bytes())? != rsk {
        return Err(Fail::new(format!("pipeline:keygen_deviates:set{}", p.id), format!("set {}: key generation on seed {} deviates from FIPS 204", p.id, hex::encode(xi))));
    }
    let dpk = g("get_public_key", || sk.public_key())?;
    if g("pk.into_bytes", || dpk.to_bytes())? != rpk {
        return Err(Fail::new(format!("pipeline:derived_pk_deviates:set{}", p.id), format!("set {}: the public key derived from the generated private key (seed {}) deviates from FIPS 204 pkEncode", p.id, hex::encode(xi))));
    }
    let rnd = [0x77u8; 32];
    let m = &xi[..9];
    let mut rng = TestRng::replay(&rnd);
    let sig = match g_sign(&*sk, &mut rng, m, &[], Mode::Pure) {
        Ok(Ok(s)) => s,
        Ok(Err(e)) => return Err(Fail::new("pipeline:sign_err", format!("set {}: signing failed: {e}", p.id))),
        Err(pi) => return Err(Fail::panic("sign", &pi)),
    };
    let (rsig, _) = rf::sign(&p, &rsk, m, &[], Mode::Pure, &rnd, 100_000).expect("reference sign");
    if sig != rsig {
        return Err(Fail::new(format!("pipeline:signature_deviates:set{}", p.id), format!("set {}: signature (seed {}) deviates from FIPS 204 Sign", p.id, hex::encode(xi))));
    }
    for (k, name) in [(&pk, "generated"), (&dpk, "derived")] {
        if !g_verify(&**k, m, &sig, &[], Mode::Pure)? {
            return Err(Fail::new(format!("pipeline:verify_deviates:set{}", p.id), format!("set {}: the {name} public key rejects the signature (seed {})", p.id, hex::encode(xi))));
        }
    }
    Ok(())
}

/// Enumerated sweeps: replay re-runs the property deterministically (vcheck falls back to that on `None`).
pub fn replay(_ctx: &Ctx, sub: &str, case: &Value) -> Option<CheckResult> {
    (sub == "pipeline").then(|| check_pipeline(&from_case::<PipeCase>(case), &mut Stats::default()))
}
