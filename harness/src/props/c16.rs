//! C16 — key material is erased when keys are dropped (memory observation).

use super::*;
use crate::engine::{run_generated, Stats};
use crate::fail;
use crate::gen::{self, PkSpec, Seed32, SkSpec};
use crate::libapi::{libs, Provenance};
use proptest::prelude::*;
use serde::{Deserialize, Serialize};
use serde_json::json;

#[derive(Clone, Debug, Hash, Serialize, Deserialize)]
pub struct Case {
    pub set: u8,
    pub private: bool,
    pub prov: Provenance,
    pub seed: Seed32,
    /// for Deserialised: build the bytes from a structured spec instead of the honest key
    pub structured_sk: Option<SkSpec>,
    pub structured_pk: Option<PkSpec>,
    /// place the object at an odd multiple of its alignment (wide-store wipes that assume more are caught)
    #[serde(default)]
    pub misalign: bool,
    /// the object is owned by a `Box` and the box is dropped; the allocator reports the block's content at `dealloc`
    #[serde(default)]
    pub boxed: bool,
    /// what was done with the object before the drop: bit 0 get_public_key() (private keys), bit 1 one signing /
    /// verification call, bit 2 a clone serialised
    #[serde(default)]
    pub pre: u8,
    /// drop_after_exhausted_loop: the key is the hostile ML-DSA-44 key of C12 and message number `n` (on which the
    /// signing loop runs to its limit) is signed through `&self` before the drop
    #[serde(default)]
    pub exhaust_msg: Option<u32>,
}

fn strategy() -> impl Strategy<Value = Case> {
    let prov = prop_oneof![Just(Provenance::Generated), Just(Provenance::Deserialised), Just(Provenance::Derived), Just(Provenance::Cloned)];
    (0u8..3, any::<bool>(), prov, gen::seed32(), proptest::option::of(gen::sk_spec()), proptest::option::of(gen::pk_spec()), any::<bool>(), proptest::bool::weighted(0.35), prop_oneof![3 => Just(0u8), 2 => 0u8..8])
        .prop_map(|(set, private, prov, seed, structured_sk, structured_pk, misalign, boxed, pre)| Case { set, private, prov, seed, structured_sk, structured_pk, misalign, boxed, pre, exhaust_msg: None })
}

pub fn check(c: &Case, st: &mut Stats) -> CheckResult {
    let libr = libs()[c.set as usize % 3];
    let p = libr.p();
    // a derived private key does not exist; map it to a derived public key
    let private = c.private && c.prov != Provenance::Derived;
    let structured: Option<Vec<u8>> = if c.prov == Provenance::Deserialised {
        if private {
            c.structured_sk.as_ref().map(|s| gen::build_sk(&p, s).sk)
        } else {
            c.structured_pk.as_ref().map(|s| gen::build_pk(&p, s))
        }
    } else {
        None
    };
    let xi = c.seed.bytes();
    let probe = g("drop", || libr.drop_probe(private, c.prov, &xi, structured.as_deref(), c.misalign, c.boxed, c.pre, None))?;
    judge(c, &p, private, &probe, st)
}

fn judge(c: &Case, p: &crate::refmodel::Params, private: bool, probe: &Option<crate::libapi::DropProbe>, st: &mut Stats) -> CheckResult {
    let Some(pr) = probe else {
        st.class("skipped:bytes_rejected");
        return Ok(());
    };
    st.eval();
    let kind = if private { "PrivateKey" } else { "PublicKey" };
    let tag = format!("set{}:{kind}:{:?}", p.id, c.prov);
    st.class(&tag);
    if c.pre != 0 {
        st.class("object used before the drop (derive / sign or verify / serialise a clone)");
    }
    if pr.mutated != 0 {
        st.class("calls through &self changed bytes of the object before the drop (interior state)");
    }
    // Bytes that a call through `&self` changed while the object sat in the observed storage are live state of the
    // object (no padding is written that way): they are judged whatever the layout is, down to a single byte.
    if pr.mutated_survivors != 0 {
        let off = pr.first_mutated_survivor.unwrap_or(0);
        fail!(
            format!("not_erased:{kind}:interior_state"),
            "{tag}: {} byte(s) that a call through &self had changed before the drop (object used in place: pre = {}, loop-exhausting signing call = {}) are still non-zero after it (first at offset {off} of {})",
            pr.mutated_survivors, c.pre, c.exhaust_msg.is_some(), pr.size
        );
    }
    st.class(if c.boxed { "placement:Box (observed by the allocator at dealloc)" } else if c.misalign { "placement:odd multiple of the alignment" } else { "placement:128-byte aligned" });
    // expected object size: no padding, every byte belongs to a field
    let expect = if private { 128 + 1024 * (p.l + 2 * p.k) } else { 96 + 1024 * p.k };
    // If the layout is not the known one (fields added, padding possible) the observation still covers every byte of
    // the object, but a few surviving bytes could be padding, which no wipe touches: then only a residue of at least
    // 32 bytes (more than alignment gaps can explain) is judged.
    let known_layout = pr.size == expect;
    if !known_layout {
        st.class("layout differs from the pinned one (residues below 32 bytes are not judged)");
        if pr.nonzero_after < 32 {
            return Ok(());
        }
    }
    if pr.nonzero_before >= 1000 && pr.blocks_nonzero_before == pr.blocks {
        st.nontrivial(c);
    } else {
        st.class("trivial:sparse_object");
    }
    st.sample(&tag, || json!({"set": p.id, "type": kind, "provenance": format!("{:?}", c.prov), "size": pr.size, "nonzero_before": pr.nonzero_before, "nonzero_after": pr.nonzero_after}));
    if pr.nonzero_after != 0 {
        let off = pr.first_survivor.unwrap_or(0);
        let field = if private {
            match off {
                0..=31 => "rho",
                32..=63 => "K",
                64..=127 => "tr",
                _ => "polynomial vectors",
            }
        } else {
            match off {
                0..=31 => "rho",
                32..=95 => "tr",
                _ => "t1_d2_hat_mont",
            }
        };
        fail!(
            format!("not_erased:{kind}:{field}"),
            "{tag}: {} of {} bytes are still non-zero after drop (first at offset {off}, field {field}; {} were non-zero before)",
            pr.nonzero_after, pr.size, pr.nonzero_before
        );
    }
    Ok(())
}

/// An object that has been through a signing call whose rejection loop ran to its limit (only an imported key with
/// hostile t0 gets there, and only on searched messages): whatever the call left in the object is erased as well.
pub fn check_exhausted(c: &Case, st: &mut Stats) -> CheckResult {
    let libr = libs()[0];
    let p = libr.p();
    let key = super::c12::exhausting_key(&p);
    let n = c.exhaust_msg.unwrap_or(1);
    let m = super::c12::ex_msg(n);
    let rnd = super::c12::ex_rnd(2);
    // the call really ends in Err on this tree? (otherwise the case is an ordinary used-before-drop case)
    let exhausted = matches!(g("sign", || libr.sk_from_bytes(&key).map(|sk| sk.sign(&mut TestRng::replay(&rnd), &m, &[1, 2, 3], Mode::Pure)))?, Ok(Err(_)));
    st.class(if exhausted { "signing call before the drop returned Err (loop ran to its limit)" } else { "signing call before the drop returned Ok" });
    let probe = g("drop", || libr.drop_probe(true, Provenance::Deserialised, &[0u8; 32], Some(&key), c.misalign, c.boxed, c.pre, Some((&m, rnd))))?;
    judge(c, &p, true, &probe, st)
}

fn exhausted_cases(tries: u32, keep: usize) -> (Vec<Case>, usize) {
    let hits = super::c12::exhausting_messages(2, tries);
    let found = hits.len();
    let mut v = Vec::new();
    for n in hits.into_iter().take(keep) {
        for (misalign, boxed) in [(false, false), (true, false), (false, true)] {
            for pre in [0u8, 1] {
                v.push(Case { set: 0, private: true, prov: Provenance::Deserialised, seed: Seed32::Zero, structured_sk: None, structured_pk: None, misalign, boxed, pre, exhaust_msg: Some(n) });
            }
        }
    }
    (v, found)
}

pub fn run(ctx: &Ctx, rep: &mut Report) {
    rep.assume("only the object's own storage is observed (heap slot, ManuallyDrop::drop in place, volatile reads); copies made elsewhere by moves or by into_bytes(self) are outside the property as stated");
    rep.assume("the object is moved into a buffer the harness owns (at a 128-byte boundary, or at an odd multiple of the type's alignment), dropped there with drop_in_place, and the buffer is read with volatile loads afterwards; the buffer outlives the object, so the read is defined behaviour");
    rep.assume("operations before the drop are applied through &self to the object in the observed storage; bytes whose value they change are interior state (a correct implementation does not write non-zero padding through &self) and are judged down to one byte whatever the layout");
    run_generated(ctx, rep, "drop_probe", ctx.n(20_000, 400_000), strategy, check);
    let (cases, found) = exhausted_cases(ctx.n(64, 512), ctx.n(2, 12) as usize);
    rep.note(format!("drop_after_exhausted_loop: {found} messages found on which signing with the hostile ML-DSA-44 key of C12 runs the loop to its limit; each of the first {} is signed through &self on the object in the observed storage (3 placements, with / without get_public_key first), then the object is dropped", cases.len() / 6));
    crate::engine::run_list(rep, "drop_after_exhausted_loop", &cases, check_exhausted);
}

pub fn replay(_ctx: &Ctx, sub: &str, case: &Value) -> Option<CheckResult> {
    match sub {
        "drop_probe" => Some(check(&from_case::<Case>(case), &mut Stats::default())),
        "drop_after_exhausted_loop" => Some(check_exhausted(&from_case::<Case>(case), &mut Stats::default())),
        _ => None,
    }
}
