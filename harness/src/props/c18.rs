//! C18 — NTT-based polynomial products equal the negacyclic product mod q (hooks; both profiles).

use super::*;
use crate::engine::{hash_of, run_generated, run_list, run_sweep, Stats};
use crate::fail;
use crate::gen::{self, Pattern, Seed32, SkSpec};
use crate::libapi::{lib, libs, to_i32, to_i64, vec_i32, vec_i64, P32};
use crate::props::c02::{load_aligned_corpus, AlignedCase};
use crate::refmodel::{self as rf, Poly, Q};
use fips204::verif_hooks as hk;
use proptest::prelude::*;
use serde::{Deserialize, Serialize};
use serde_json::json;

fn congruent(a: &P32, b: &Poly) -> Option<usize> { (0..256).find(|&i| (i64::from(a[i]) - b[i]).rem_euclid(Q) != 0) }

// ---------------------------------------------------------------------------------------------
// 1. monomial basis x scalars the callers supply

const SCALARS: [i64; 12] = [1, -1, 2, -2, 4, -4, 4096, -4095, 1023, 1 << 17, 1 << 19, -(1 << 19) + 1];

fn basis(rep: &mut Report) {
    let n = 256 * SCALARS.len() as u64;
    run_sweep(
        rep,
        "monomial_basis",
        n,
        true,
        |i, st| {
            let (pos, s) = ((i % 256) as usize, SCALARS[(i / 256) as usize]);
            let mut x = rf::ZERO;
            x[pos] = s;
            let xh = g("ntt", || hk::ntt::<1>(&[to_i32(&x)]))?[0];
            st.eval();
            st.nontrivial_enumerated += 1;
            let rh = rf::ntt(&x);
            if let Some(k) = congruent(&xh, &rh) {
                return Err(Fail::new("ntt:wrong", format!("ntt({s}*X^{pos})[{k}] = {} is not congruent to {} (zeta^(2 brv(k)+1))^{pos} * {s}", xh[k], rh[k])));
            }
            let back = g("inv_ntt", || hk::inv_ntt::<1>(&[xh]))?[0];
            let want: Poly = core::array::from_fn(|j| rf::mod_q(x[j]));
            if to_i64(&back) != want {
                let k = (0..256).find(|&j| i64::from(back[j]) != want[j]).unwrap_or(0);
                return Err(Fail::new("inv_ntt:wrong", format!("inv_ntt(ntt({s}*X^{pos}))[{k}] = {}, expected the fully reduced value {}", back[k], want[k])));
            }
            Ok(())
        },
        |i| json!({"pos": i % 256, "scalar": SCALARS[(i / 256) as usize]}),
    );
}

// ---------------------------------------------------------------------------------------------
// 1b. worst-case accumulation: inverse NTT of constant and two-level inputs over the whole range of
// values its callers can supply (|x| <= (L+1) q). Output coefficient 0 accumulates all 256 inputs without
// reduction, so a constant input is the extreme case for a 32-bit overflow.

fn inv_ntt_levels(ctx: &Ctx, rep: &mut Report) {
    let lim: i64 = 9 * Q;
    let step: i64 = if ctx.quick() { 16 } else { 1 };
    let off = (hash_of(&(ctx.seed, "c18-levels")) % step as u64) as i64;
    let n = (2 * lim / step) as u64;
    run_sweep(
        rep,
        "inv_ntt_constant_inputs",
        n,
        !ctx.quick(),
        |i, st| {
            let v = -lim + off + i as i64 * step;
            st.eval();
            st.nontrivial_enumerated += 1;
            let x: P32 = [v as i32; 256];
            let out = g("inv_ntt", || hk::inv_ntt::<1>(&[x]))?[0];
            if i64::from(out[0]) != rf::mod_q(v) || out[1..].iter().any(|&c| c != 0) {
                return Err(Fail::new("inv_ntt_constant:wrong", format!("inv_ntt of the constant input {v} gives coefficient 0 = {} (expected {}), other coefficients {}", out[0], rf::mod_q(v), if out[1..].iter().any(|&c| c != 0) { "non-zero" } else { "zero" })));
            }
            // two levels: first half v, second half the mirrored value -> exercises the last-layer subtraction
            if i % 8 == 0 {
                let w = (lim - (v + lim) % (2 * lim)).clamp(-lim, lim);
                let y: P32 = core::array::from_fn(|j| if j < 128 { v as i32 } else { w as i32 });
                let out = g("inv_ntt", || hk::inv_ntt::<1>(&[y]))?[0];
                let expect = rf::ntt_inv(&to_i64(&y));
                if to_i64(&out) != expect {
                    let k = (0..256).find(|&j| i64::from(out[j]) != expect[j]).unwrap_or(0);
                    return Err(Fail::new("inv_ntt_two_level:wrong", format!("inv_ntt of the two-level input ({v}, {w}) gives coefficient {k} = {}, expected {}", out[k], expect[k])));
                }
            }
            Ok(())
        },
        |i| json!({"v": -lim + off + i as i64 * step}),
    );
}

// ---------------------------------------------------------------------------------------------
// 1c. maximal forward-NTT growth (gen::maxgrowth): the extreme input of to_mont and of the
// matrix-vector pipeline; through the hooks here, through public verify in C02

#[derive(Clone, Debug, Hash, Serialize, Deserialize)]
pub struct GrowthCase {
    pub set: u8,
    pub negative: bool,
    /// which polynomials of the vector carry the construction (bit mask), the others are zero
    pub slots: u8,
    pub rho: Seed32,
}

/// gen::maxgrowth aims at the residue (q-1)/2 exactly; which representative the crate's Montgomery
/// multiplication returns right at that boundary depends on low-order terms, so the last step of the
/// search is guided by the implementation: among the in-norm candidates whose product with the
/// layer's zeta lies within 2^17 of +-q/2, keep the one for which `mont_reduce(zeta_mont * v)` is
/// extreme. (Search with the code under test as the objective, like coverage-guided fuzzing.)
pub fn growth_vector_guided(p: &rf::Params, negative: bool) -> Poly {
    let b = p.gamma1 - p.beta - 1;
    let s: i64 = if negative { -1 } else { 1 };
    let zt = rf::zetas();
    let ztm = hk::zeta_table_mont();
    let mut z = rf::ZERO;
    z[0] = s * b;
    let (mut len, mut m) = (128usize, 1usize);
    while len >= 1 {
        let zinv = rf::pow_mod(zt[m], (Q - 2) as u64);
        let mut best: Option<(i64, i64)> = None;
        for d in 0..(1i64 << 17) {
            let r = s * ((Q - 1) / 2 - d);
            let v = rf::mod_pm(r.rem_euclid(Q) * zinv % Q, Q);
            if v.abs() <= b {
                let t = i64::from(hk::mont_reduce(i64::from(ztm[m]) * v)) * s;
                if best.map_or(true, |(bt, _)| t > bt) {
                    best = Some((t, v));
                }
            }
        }
        z[len] = best.map_or(0, |(_, v)| v);
        len /= 2;
        m *= 2;
    }
    z
}

pub fn check_growth(c: &GrowthCase, st: &mut Stats) -> CheckResult {
    let libr = libs()[c.set as usize % 3];
    let p = libr.p();
    let zg = growth_vector_guided(&p, c.negative);
    let v: Vec<Poly> = (0..p.l).map(|j| if (c.slots >> j) & 1 == 1 || c.slots == 0 { zg } else { rf::ZERO }).collect();
    st.eval();
    st.nontrivial(c);
    let h = g("ntt", || libr.hk_ntt_l(&vec_i32(&v)))?;
    let peak = h.iter().flat_map(|x| x.iter()).map(|&x| i64::from(x).abs()).max().unwrap_or(0);
    st.maximum(&format!("max_abs_forward_ntt_coefficient_set{}", p.id), peak);
    for j in 0..p.l {
        let r = rf::ntt(&v[j]);
        if let Some(k) = congruent(&h[j], &r) {
            fail!(format!("growth_ntt_differs:set{}", p.id), "set {}: ntt of the maximal-growth vector, polynomial {j} position {k}: {} is not congruent to {}", p.id, h[j][k], r[k]);
        }
        let hm = g("to_mont", || hk::to_mont::<1>(&[h[j]]))?[0];
        for k in 0..256 {
            let want = (i128::from(h[j][k]) << 32).rem_euclid(i128::from(Q)) as i64;
            if i64::from(hm[k]).rem_euclid(Q) != want || i64::from(hm[k]).abs() >= 2 * Q {
                fail!(format!("growth_to_mont_differs:set{}", p.id), "set {}: to_mont({}) = {} is not congruent to x*2^32 mod q (or not within (-2q, 2q)); forward-NTT peak {peak}", p.id, h[j][k], hm[k]);
            }
        }
    }
    let a = rf::expand_a(&p, &c.rho.bytes(), &mut rf::SampleStats::default());
    let a32: Vec<Vec<P32>> = a.iter().map(|r| vec_i32(r)).collect();
    let av = g("mat_vec_mul", || libr.hk_mat_vec_mul(&a32, &h))?;
    let out = g("inv_ntt", || libr.hk_inv_ntt_k(&av))?;
    let vh: Vec<Poly> = v.iter().map(rf::ntt).collect();
    let expect: Vec<Poly> = rf::matrix_vector_ntt(&a, &vh).iter().map(rf::ntt_inv).collect();
    for i in 0..p.k {
        if to_i64(&out[i]) != expect[i] {
            let k = (0..256).find(|&j| i64::from(out[i][j]) != expect[i][j]).unwrap_or(0);
            fail!(format!("growth_matvec_differs:set{}", p.id), "set {}: A*z for the maximal-growth vector, row {i} coefficient {k}: {} vs the product mod q {} (forward-NTT peak {peak})", p.id, out[i][k], expect[i][k]);
        }
    }
    st.sample(&format!("set{}", p.id), || json!({"set": p.id, "negative": c.negative, "slots": c.slots, "forward_ntt_peak": peak, "nonzero_coefficients": zg.iter().enumerate().filter(|(_, &x)| x != 0).map(|(i, &x)| (i, x)).collect::<Vec<_>>()}));
    Ok(())
}

// ---------------------------------------------------------------------------------------------
// 2. challenge products composed as the crate composes them

#[derive(Clone, Debug, Hash, Serialize, Deserialize)]
pub enum Operand {
    Pattern(Pattern),
    /// signs aligned to the challenge so that product coefficient `target` is maximal in magnitude
    Aligned { target: u8, negative: bool },
}

#[derive(Clone, Debug, Hash, Serialize, Deserialize)]
pub struct ProdCase {
    pub set: u8,
    pub c_seed: u64,
    /// 0: s (eta), 1: t0 (2^12), 2: t1*2^d via the `<< D` precompute of expand_public
    pub site: u8,
    pub operand: Operand,
}

fn prod_strategy() -> impl Strategy<Value = ProdCase> {
    let operand = prop_oneof![
        3 => gen::pattern().prop_map(Operand::Pattern),
        2 => (any::<u8>(), any::<bool>()).prop_map(|(target, negative)| Operand::Aligned { target, negative }),
    ];
    (0u8..3, any::<u64>(), 0u8..3, operand).prop_map(|(set, c_seed, site, operand)| ProdCase { set, c_seed, site, operand })
}

pub fn check_prod(c: &ProdCase, st: &mut Stats) -> CheckResult {
    let p = libs()[c.set as usize % 3].p();
    let (lo, hi): (i64, i64) = match c.site % 3 {
        0 => (p.eta, p.eta),
        1 => (4095, 4096),
        _ => (0, 1023),
    };
    let c_tilde = gen::prg_bytes(c.c_seed, "c~", p.ctilde_len());
    let ch = g("sample_in_ball", || hk::sample_in_ball::<false>(p.tau as i32, &c_tilde))?;
    let ch64 = to_i64(&ch);
    if ch64 != rf::sample_in_ball(&p, &c_tilde) {
        fail!(format!("sample_in_ball:differs:set{}", p.id), "set {}: sample_in_ball differs from the reference SampleInBall", p.id);
    }
    let s: Poly = match &c.operand {
        Operand::Pattern(pat) => gen::pattern_poly(pat, lo, hi, 0),
        Operand::Aligned { target, negative } => {
            let k = *target as usize;
            let sign = if *negative { -1 } else { 1 };
            core::array::from_fn(|j| {
                // coefficient k of c*s = sum_{j<=k} c[k-j] s[j] - sum_{j>k} c[k+256-j] s[j]
                let cc = if j <= k { ch64[k - j] } else { -ch64[k + 256 - j] };
                match (cc * sign).signum() {
                    1 => hi,
                    -1 => -lo,
                    _ => hi,
                }
            })
        }
    };
    st.eval();
    st.class(&format!("site{}:{}", c.site % 3, match &c.operand { Operand::Pattern(Pattern::Random(_)) => "random", Operand::Pattern(_) => "structured", Operand::Aligned { .. } => "aligned_to_c" }));
    if !matches!(c.operand, Operand::Pattern(Pattern::Random(_))) {
        st.nontrivial(c);
    }
    let c_hat = g("ntt", || hk::ntt::<1>(&[ch]))?[0];
    let s_hat_mont = g("to_mont(ntt)", || hk::to_mont::<1>(&hk::ntt::<1>(&[to_i32(&s)])))?[0];
    let (out, expect): (P32, Poly) = if c.site % 3 < 2 {
        let prod: P32 = g("mont_reduce", || core::array::from_fn(|n| hk::mont_reduce(i64::from(c_hat[n]) * i64::from(s_hat_mont[n]))))?;
        (g("inv_ntt", || hk::inv_ntt::<1>(&[prod]))?[0], rf::schoolbook_mul(&ch64, &s))
    } else {
        // expand_public: t1_d2_hat_mont = to_mont(mont_reduce(t1_hat_mont << D)); verify: 0 - mont_reduce(c_hat * t1_d2_hat_mont)
        let t1d2: P32 = g("t1<<D precompute", || {
            let inner: P32 = core::array::from_fn(|n| hk::mont_reduce(i64::from(s_hat_mont[n]) << 13));
            hk::to_mont::<1>(&[inner])[0]
        })?;
        let neg: P32 = g("mont_reduce", || core::array::from_fn(|n| -hk::mont_reduce(i64::from(c_hat[n]) * i64::from(t1d2[n]))))?;
        let t1d: Poly = core::array::from_fn(|j| s[j] * 8192);
        let prod = rf::schoolbook_mul(&ch64, &t1d);
        (g("inv_ntt", || hk::inv_ntt::<1>(&[neg]))?[0], core::array::from_fn(|j| rf::mod_q(-prod[j])))
    };
    let maxc = (0..256).map(|j| rf::mod_pm(expect[j], Q).abs()).max().unwrap_or(0);
    st.maximum(&format!("max_product_coeff_site{}", c.site % 3), maxc);
    if to_i64(&out) != expect {
        let k = (0..256).find(|&j| i64::from(out[j]) != expect[j]).unwrap_or(0);
        fail!(format!("product_differs:site{}", c.site % 3), "set {} site {}: coefficient {k} of the NTT-based product is {}, the negacyclic product mod q is {}", p.id, c.site % 3, out[k], expect[k]);
    }
    Ok(())
}

// ---------------------------------------------------------------------------------------------
// 3. matrix-vector products

#[derive(Clone, Debug, Hash, Serialize, Deserialize)]
pub struct MatCase {
    pub set: u8,
    /// 0: ExpandA(rho), 1: all q-1, 2: all 1, 3: alternating 0 / q-1
    pub matrix: u8,
    pub rho: Seed32,
    pub vec: Pattern,
    /// 0: eta (s1), 1: gamma1 (y / z)
    pub range: u8,
}

pub fn check_mat(c: &MatCase, st: &mut Stats) -> CheckResult {
    let libr = libs()[c.set as usize % 3];
    let p = libr.p();
    let a: Vec<Vec<Poly>> = match c.matrix % 4 {
        0 => rf::expand_a(&p, &c.rho.bytes(), &mut rf::SampleStats::default()),
        1 => vec![vec![[Q - 1; 256]; p.l]; p.k],
        2 => vec![vec![[1; 256]; p.l]; p.k],
        _ => vec![vec![core::array::from_fn(|i| if i % 2 == 0 { 0 } else { Q - 1 }); p.l]; p.k],
    };
    let (lo, hi) = if c.range % 2 == 0 { (p.eta, p.eta) } else { (p.gamma1 - 1, p.gamma1) };
    let v: Vec<Poly> = (0..p.l).map(|j| gen::pattern_poly(&c.vec, lo, hi, j as u64)).collect();
    st.eval();
    st.class(&format!("matrix{}:range{}", c.matrix % 4, c.range % 2));
    if c.matrix % 4 != 0 || !matches!(c.vec, Pattern::Random(_)) {
        st.nontrivial(c);
    }
    if c.matrix % 4 == 0 {
        let la = g("expand_a", || libr.hk_expand_a(&c.rho.bytes(), false))?;
        for i in 0..p.k {
            if vec_i64(&la[i]) != a[i] {
                fail!(format!("expand_a:differs:set{}", p.id), "set {}: expand_a differs from the reference ExpandA in row {i}", p.id);
            }
        }
    }
    let a32: Vec<Vec<P32>> = a.iter().map(|r| vec_i32(r)).collect();
    let v_hat = g("ntt", || libr.hk_ntt_l(&vec_i32(&v)))?;
    let av = g("mat_vec_mul", || libr.hk_mat_vec_mul(&a32, &v_hat))?;
    let shadow = av.iter().map(|row| row.iter().map(|&x| i64::from(x)).sum::<i64>().abs()).max().unwrap_or(0);
    st.maximum("max_abs_shadow_sum_permille_of_2^31", shadow * 1000 / (1i64 << 31));
    let out = g("inv_ntt", || libr.hk_inv_ntt_k(&av))?;
    let vh: Vec<Poly> = v.iter().map(rf::ntt).collect();
    let expect: Vec<Poly> = rf::matrix_vector_ntt(&a, &vh).iter().map(rf::ntt_inv).collect();
    for i in 0..p.k {
        if to_i64(&out[i]) != expect[i] {
            let k = (0..256).find(|&j| i64::from(out[i][j]) != expect[i][j]).unwrap_or(0);
            fail!(format!("matvec_differs:set{}", p.id), "set {}: row {i} coefficient {k} of NTT^-1(A o NTT(v)) is {}, expected {} (matrix class {}, range {})", p.id, out[i][k], expect[i][k], c.matrix % 4, c.range % 2);
        }
    }
    Ok(())
}

// ---------------------------------------------------------------------------------------------
// 4. adversarial response vectors through the hooks, with the i64 shadow sum

pub fn check_aligned_hooks(c: &AlignedCase, st: &mut Stats) -> CheckResult {
    let p = rf::params(c.aligned.set);
    let libr = lib(p.id);
    let z = c.aligned.z(&p);
    let a = rf::expand_a(&p, &c.aligned.rho, &mut rf::SampleStats::default());
    let a32: Vec<Vec<P32>> = a.iter().map(|r| vec_i32(r)).collect();
    let z_hat = g("ntt", || libr.hk_ntt_l(&vec_i32(&z)))?;
    let az = g("mat_vec_mul", || libr.hk_mat_vec_mul(&a32, &z_hat))?;
    let sums: Vec<i64> = az.iter().map(|row| row.iter().map(|&x| i64::from(x)).sum::<i64>()).collect();
    let shadow = sums.iter().map(|s| s.abs()).max().unwrap_or(0);
    st.eval();
    st.class(&format!("aligned:set{}", p.id));
    st.maximum(&format!("shadow_sum_permille_of_2^31_set{}", p.id), shadow * 1000 / (1i64 << 31));
    if shadow > 1 << 30 {
        st.nontrivial(&(p.id, hash_of(&c.aligned.a)));
    }
    st.sample(&format!("aligned:set{}", p.id), || json!({"set": p.id, "row": c.aligned.row, "shadow_sums_of_inverse_ntt_input_rows": sums, "two_pow_31": 1u64 << 31}));
    let out = g("inv_ntt", || libr.hk_inv_ntt_k(&az))?;
    let zh: Vec<Poly> = z.iter().map(rf::ntt).collect();
    let expect: Vec<Poly> = rf::matrix_vector_ntt(&a, &zh).iter().map(rf::ntt_inv).collect();
    for i in 0..p.k {
        if to_i64(&out[i]) != expect[i] {
            let k = (0..256).find(|&j| i64::from(out[i][j]) != expect[i][j]).unwrap_or(0);
            fail!(
                format!("aligned_product_differs:set{}", p.id),
                "set {}: A*z row {i} coefficient {k} = {} but the product mod q is {} (i64 shadow sum of the inverse-NTT inputs of row {}: {} vs 2^31 = {})",
                p.id, out[i][k], expect[i][k], c.aligned.row, sums[c.aligned.row], 1u64 << 31
            );
        }
    }
    Ok(())
}

// ---------------------------------------------------------------------------------------------
// 5. key pipelines on extremal fields (Montgomery out, inverse NTT, re-centre)

#[derive(Clone, Debug, Hash, Serialize, Deserialize)]
pub struct KeyCase {
    pub set: u8,
    pub rho: Seed32,
    pub s1: Pattern,
    pub s2: Pattern,
}

pub fn check_key(c: &KeyCase, st: &mut Stats) -> CheckResult {
    let libr = libs()[c.set as usize % 3];
    let p = libr.p();
    let spec = SkSpec::Fields { rho: c.rho.clone(), key: Seed32::Zero, tr_seed: 0, s1: c.s1.clone(), s2: c.s2.clone(), t0: Pattern::AllZero, consistent: true };
    let built = gen::build_sk(&p, &spec);
    st.eval();
    st.nontrivial(c);
    let sk = match g_sk(libr, &built.sk)? {
        Ok(k) => k,
        Err(e) => fail!(format!("extremal_key_rejected:set{}", p.id), "set {}: in-range extremal key rejected: {e}", p.id),
    };
    let back = g("sk.into_bytes", || sk.to_bytes())?;
    if back != built.sk {
        fail!(format!("extremal_sk_roundtrip:set{}", p.id), "set {}: extremal private key does not round-trip ({:?}, {:?})", p.id, c.s1, c.s2);
    }
    let dpk = g("pk.into_bytes", || g("get_public_key", || sk.public_key()).map(|k| k.to_bytes()))??;
    if dpk != built.pk {
        let pos = dpk.iter().zip(&built.pk).position(|(a, b)| a != b);
        fail!(format!("extremal_derived_pk:set{}", p.id), "set {}: public key derived from an extremal private key differs from A*s1+s2 computed by the reference (first difference at byte {pos:?}; s1 {:?}, s2 {:?})", p.id, c.s1, c.s2);
    }
    Ok(())
}

pub fn run(ctx: &Ctx, rep: &mut Report) {
    rep.assume("oracle: schoolbook product in Z_q[X]/(X^256+1) with i128 accumulation for single products; the reference NTT (itself cross-checked against the schoolbook product at start-up) for matrix-vector products");
    rep.assume("absence of 32-bit overflow is observed through the checked profile (overflow-checks = on: any wrapping add/sub/mul panics) and through agreement with the exact product in the plain profile");
    rep.assume("'every vector in range' is sampled plus structured; for ML-DSA-44 the aligned-residue construction does not reach 2^31, so for that set the claim rests on the bound 256*(q-1) < 2^31 established by the reduction at the inverse-NTT copy-in");
    basis(rep);
    inv_ntt_levels(ctx, rep);
    {
        let mut gc = Vec::new();
        for set in 0..3u8 {
            for negative in [false, true] {
                for slots in [0u8, 1, 2, 0b0101, 0b1010, 0x40, 0x7F] {
                    gc.push(GrowthCase { set, negative, slots, rho: Seed32::Uniform(u64::from(slots) ^ ctx.seed) });
                }
            }
        }
        run_list(rep, "ntt_max_growth", &gc, check_growth);
    }
    run_generated(ctx, rep, "challenge_products", ctx.n(300_000, 5_000_000), prod_strategy, check_prod);
    run_generated(
        ctx,
        rep,
        "matrix_vector",
        ctx.n(20_000, 400_000),
        || (0u8..3, 0u8..4, gen::seed32(), gen::pattern(), 0u8..2).prop_map(|(set, matrix, rho, vec, range)| MatCase { set, matrix, rho, vec, range }),
        check_mat,
    );
    run_generated(
        ctx,
        rep,
        "key_pipelines",
        ctx.n(6_000, 100_000),
        || (0u8..3, gen::seed32(), gen::pattern(), gen::pattern()).prop_map(|(set, rho, s1, s2)| KeyCase { set, rho, s1, s2 }),
        check_key,
    );
    let mut ac: Vec<AlignedCase> = load_aligned_corpus(&ctx.root).into_iter().map(|a| AlignedCase { aligned: a, mode: 0, hint_full: false }).collect();
    if !ctx.quick() {
        for id in [65u32, 87] {
            let p = rf::params(id);
            for k in 0..3u64 {
                let rho = gen::prg_bytes(hash_of(&(ctx.seed, "c18-aligned-rho", id, k)), "rho", 32);
                let row = (hash_of(&(ctx.seed, "c18-aligned-row", id, k)) % p.k as u64) as usize;
                if let Some(a) = crate::gen::aligned::construct(&p, &rho, row, 16) {
                    ac.push(AlignedCase { aligned: a, mode: 0, hint_full: false });
                }
            }
        }
    }
    run_list(rep, "aligned_response_vectors", &ac, check_aligned_hooks);
}

pub fn replay(_ctx: &Ctx, sub: &str, case: &Value) -> Option<CheckResult> {
    match sub {
        "challenge_products" => Some(check_prod(&from_case::<ProdCase>(case), &mut Stats::default())),
        "matrix_vector" => Some(check_mat(&from_case::<MatCase>(case), &mut Stats::default())),
        "key_pipelines" => Some(check_key(&from_case::<KeyCase>(case), &mut Stats::default())),
        "ntt_max_growth" => Some(check_growth(&from_case::<GrowthCase>(case), &mut Stats::default())),
        "aligned_response_vectors" => Some(check_aligned_hooks(&from_case::<AlignedCase>(case), &mut Stats::default())),
        _ => None,
    }
}
