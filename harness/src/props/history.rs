//! Model-based API histories. A generated sequence of ordinary API calls runs against the library
//! and against a model (the reference functions applied to the serialised form of every object in the
//! pool); every result is compared. The properties are stated per call, so any dependence of a result
//! on what the process did earlier (a memo of the last key, an error latch, a cached matrix, a
//! health-test fingerprint) shows up as a mismatch at the later call. Each property that is sensitive
//! to history runs this engine with its own op-kind focus and its own generator seed.

use super::*;
use crate::engine::{run_generated, Stats};
use crate::gen::sigs::{self, SigMut};
use crate::gen::twins::{self, Twin};
use crate::gen::{self, BytesSpec, PkSpec, Seed32, SkSpec};
use crate::libapi::{libs, Fault};
use crate::refmodel as rf;
use proptest::prelude::*;
use serde::{Deserialize, Serialize};
use serde_json::json;

#[derive(Clone, Debug, Hash, Serialize, Deserialize)]
pub enum KeySrc<S> {
    Spec(S),
    /// the serialised form of a pool object again
    Pool(u8),
    /// a near-twin of a pool object's serialised form
    TwinOf(u8, Twin),
}

#[derive(Clone, Debug, Hash, Serialize, Deserialize)]
pub enum SigSel {
    Pool(u8),
    Mutated(u8, SigMut),
    Uniform(u64),
}

#[derive(Clone, Debug, Hash, Serialize, Deserialize)]
pub enum HOp {
    Keygen(Seed32),
    KeygenRng { seed: Seed32, fault: Option<Fault>, modfn: bool },
    ImportPk(KeySrc<PkSpec>),
    ImportSk(KeySrc<SkSpec>),
    Sign { sk: u8, msg: BytesSpec, ctx: BytesSpec, mode: u8, rnd: Seed32, fault: Option<Fault> },
    Verify { pk: u8, sig: SigSel, other_msg: bool, other_ctx: Option<BytesSpec>, other_mode: Option<u8> },
    Derive(u8),
    SkBytes(u8),
    PkBytes(u8),
    DropSk(u8),
    DropPk(u8),
    CloneSk(u8),
    ClonePk(u8),
    /// `dst.clone_from(&src)` on two pool objects
    AssignSk { dst: u8, src: u8 },
    AssignPk { dst: u8, src: u8 },
}

#[derive(Clone, Debug, Hash, Serialize, Deserialize)]
pub struct Case {
    pub set: u8,
    pub ops: Vec<HOp>,
}

fn fault() -> impl Strategy<Value = Option<Fault>> {
    proptest::option::weighted(0.25, prop_oneof![Just(Fault::ErrBefore), Just(Fault::ErrAfter(1)), Just(Fault::ErrAfter(16)), Just(Fault::ErrAfter(32))])
}

fn any_ctx() -> impl Strategy<Value = BytesSpec> { prop_oneof![6 => gen::context().boxed(), 1 => gen::long_context().boxed()] }

/// private keys whose signing loop stays short (the model signs every message)
fn tame_sk() -> impl Strategy<Value = SkSpec> {
    prop_oneof![
        3 => gen::seed32().prop_map(SkSpec::Generated),
        2 => (gen::seed32(), gen::seed32(), any::<u64>(), gen::pattern(), gen::pattern(), any::<bool>()).prop_map(|(rho, key, tr_seed, s1, s2, consistent)| SkSpec::Fields {
            rho,
            key,
            tr_seed,
            s1,
            s2,
            t0: gen::Pattern::Random(tr_seed),
            consistent
        }),
    ]
}

fn op() -> impl Strategy<Value = HOp> {
    let pk_src = prop_oneof![3 => gen::pk_spec().prop_map(KeySrc::Spec), 2 => any::<u8>().prop_map(KeySrc::Pool), 3 => (any::<u8>(), twins::twin()).prop_map(|(i, t)| KeySrc::TwinOf(i, t))];
    let sk_src = prop_oneof![3 => tame_sk().prop_map(KeySrc::Spec), 2 => any::<u8>().prop_map(KeySrc::Pool), 3 => (any::<u8>(), twins::twin()).prop_map(|(i, t)| KeySrc::TwinOf(i, t))];
    let sig = prop_oneof![4 => any::<u8>().prop_map(SigSel::Pool), 2 => (any::<u8>(), sigs::sig_mut()).prop_map(|(i, m)| SigSel::Mutated(i, m)), 1 => any::<u64>().prop_map(SigSel::Uniform)];
    prop_oneof![
        3 => gen::seed32().prop_map(HOp::Keygen),
        2 => (gen::seed32(), fault(), any::<bool>()).prop_map(|(seed, fault, modfn)| HOp::KeygenRng { seed, fault, modfn }),
        3 => pk_src.prop_map(HOp::ImportPk),
        3 => sk_src.prop_map(HOp::ImportSk),
        6 => (any::<u8>(), gen::message(300), any_ctx(), gen::mode(), gen::seed32(), fault()).prop_map(|(sk, msg, ctx, mode, rnd, fault)| HOp::Sign { sk, msg, ctx, mode, rnd, fault }),
        6 => (any::<u8>(), sig, proptest::bool::weighted(0.15), proptest::option::weighted(0.15, any_ctx()), proptest::option::weighted(0.15, gen::mode()))
            .prop_map(|(pk, sig, other_msg, other_ctx, other_mode)| HOp::Verify { pk, sig, other_msg, other_ctx, other_mode }),
        3 => any::<u8>().prop_map(HOp::Derive),
        2 => any::<u8>().prop_map(HOp::SkBytes),
        2 => any::<u8>().prop_map(HOp::PkBytes),
        1 => any::<u8>().prop_map(HOp::DropSk),
        1 => any::<u8>().prop_map(HOp::DropPk),
        1 => any::<u8>().prop_map(HOp::CloneSk),
        1 => any::<u8>().prop_map(HOp::ClonePk),
        1 => (any::<u8>(), any::<u8>()).prop_map(|(dst, src)| HOp::AssignSk { dst, src }),
        1 => (any::<u8>(), any::<u8>()).prop_map(|(dst, src)| HOp::AssignPk { dst, src }),
    ]
}

pub fn strategy(max_len: usize) -> impl Strategy<Value = Case> {
    (0u8..3, gen::seed32(), proptest::collection::vec(op(), 3..max_len)).prop_map(|(set, first, mut ops)| {
        // every history starts with one key pair so that later operations have something to work on
        ops.insert(0, HOp::Keygen(first));
        Case { set, ops }
    })
}

/// Which mismatches count for the property that runs the engine (the others are left to their own property).
#[derive(Clone, Copy, Debug, PartialEq, Eq)]
pub enum Focus {
    Verify,
    Sign,
    Keygen,
    Serialise,
    Derive,
    /// every kind (coverage-guided target): the key is prefixed with the property the kind belongs to
    All,
}

impl Focus {
    pub fn of(prop: &str) -> Focus {
        match prop {
            "C02" => Focus::Verify,
            "C04" => Focus::Keygen,
            "C09" => Focus::Serialise,
            "C11" => Focus::Derive,
            _ => Focus::Sign,
        }
    }
}

/// pkEncode of the public key FIPS 204 associates with these private-key bytes (rho, Power2Round(A s1 + s2).t1)
pub fn model_derive_pk(p: &rf::Params, sk: &[u8]) -> Vec<u8> {
    let f = rf::sk_decode(p, sk);
    let mut st = rf::SampleStats::default();
    let a_hat = rf::expand_a(p, &f.rho, &mut st);
    let s1_hat: Vec<rf::Poly> = f.s1.iter().map(rf::ntt).collect();
    let as1: Vec<rf::Poly> = rf::matrix_vector_ntt(&a_hat, &s1_hat).iter().map(rf::ntt_inv).collect();
    let t1: Vec<rf::Poly> = (0..p.k).map(|i| core::array::from_fn(|j| rf::power2round(rf::mod_q(as1[i][j] + f.s2[i][j])).0)).collect();
    rf::pk_encode(p, &f.rho, &t1)
}

struct SigRec {
    sig: Vec<u8>,
    m: Vec<u8>,
    ctx: Vec<u8>,
    mode: Mode,
}

const ITER_CAP: u32 = 60;

pub fn check(focus: Focus, c: &Case, st: &mut Stats) -> CheckResult {
    let libr = libs()[c.set as usize % 3];
    let p = libr.p();
    let mut sks: Vec<(Box<dyn SkObj>, Vec<u8>)> = Vec::new();
    let mut pks: Vec<(Box<dyn PkObj>, Vec<u8>)> = Vec::new();
    let mut sg: Vec<SigRec> = Vec::new();
    let mut history: Vec<String> = Vec::new();
    for (i, o) in c.ops.iter().enumerate() {
        st.eval();
        let before = format!("{} earlier call(s): {}", history.len(), history.iter().rev().take(4).rev().cloned().collect::<Vec<_>>().join(" ; "));
        let mismatch = |kind: Focus, key: &str, what: String| -> CheckResult {
            if kind == focus {
                Err(Fail::new(format!("history:{key}:set{}", p.id), format!("set {} call #{i}: {what} [{before}]", p.id)))
            } else if focus == Focus::All {
                let prop = match kind {
                    Focus::Verify => "C02",
                    Focus::Keygen => "C04",
                    Focus::Serialise => "C09",
                    Focus::Derive => "C11",
                    _ => "C03",
                };
                Err(Fail::new(format!("{prop}|history:{key}:set{}", p.id), format!("set {} call #{i}: {what} [{before}]", p.id)))
            } else {
                Ok(())
            }
        };
        match o {
            HOp::Keygen(seed) | HOp::KeygenRng { seed, .. } => {
                let xi = seed.bytes();
                let (rpk, rsk) = rf::keygen_internal(&p, &xi);
                let (res, faulted): (Result<(Box<dyn PkObj>, Box<dyn SkObj>), &'static str>, bool) = match o {
                    HOp::KeygenRng { fault, modfn, .. } => {
                        let mut rng = TestRng::with_faults(&xi, fault.iter().copied().collect(), false);
                        let r = g("try_keygen_with_rng", || if *modfn { libr.keygen_with_rng_modfn(&mut rng) } else { libr.keygen_with_rng(&mut rng) })?;
                        (r, fault.is_some())
                    }
                    _ => (Ok(g("keygen_from_seed", || libr.keygen_from_seed(&xi))?), false),
                };
                history.push(format!("keygen{}", if faulted { "(failing rng)" } else { "" }));
                match (res, faulted) {
                    (Err(_), true) => st.class("keygen:rng_fault->Err"),
                    (Ok(_), true) => mismatch(Focus::Keygen, "keygen_ok_despite_rng_failure", "RNG-driven key generation returned keys although its generator failed".into())?,
                    (Err(e), false) => mismatch(Focus::Keygen, "keygen_err", format!("key generation failed ({e}) although its generator delivered 32 bytes"))?,
                    (Ok((pk, sk)), false) => {
                        let (pkb, skb) = (g("pk.into_bytes", || pk.to_bytes())?, g("sk.into_bytes", || sk.to_bytes())?);
                        if pkb != rpk || skb != rsk {
                            mismatch(Focus::Keygen, "keygen_differs", "generated keys differ from FIPS 204 KeyGen_internal on the same seed".into())?;
                        }
                        pks.push((pk, rpk));
                        sks.push((sk, rsk));
                        st.class("keygen:ok");
                    }
                }
            }
            HOp::ImportPk(src) => {
                let bytes = match src {
                    KeySrc::Spec(s) => gen::build_pk(&p, s),
                    KeySrc::Pool(j) if !pks.is_empty() => pks[*j as usize % pks.len()].1.clone(),
                    KeySrc::TwinOf(j, t) if !pks.is_empty() => {
                        st.class("import_pk:twin_of_pool_key");
                        t.variants(&pks[*j as usize % pks.len()].1).remove(0)
                    }
                    _ => continue,
                };
                history.push("import pk".into());
                match guarded(|| libr.pk_from_bytes(&bytes)).map_err(|pi| Fail::panic("pk_from_bytes", &pi))? {
                    Ok(k) => {
                        if g("pk.into_bytes", || k.to_bytes())? != bytes {
                            mismatch(Focus::Serialise, "pk_roundtrip_differs", "an imported public key serialises to different bytes".into())?;
                        }
                        pks.push((k, bytes));
                    }
                    Err(e) => mismatch(Focus::Serialise, "pk_import_err", format!("PublicKey::try_from_bytes failed ({e})"))?,
                }
            }
            HOp::ImportSk(src) => {
                let bytes = match src {
                    KeySrc::Spec(s) => gen::build_sk(&p, s).sk,
                    KeySrc::Pool(j) if !sks.is_empty() => sks[*j as usize % sks.len()].1.clone(),
                    KeySrc::TwinOf(j, t) if !sks.is_empty() => {
                        st.class("import_sk:twin_of_pool_key");
                        t.variants(&sks[*j as usize % sks.len()].1).remove(0)
                    }
                    _ => continue,
                };
                history.push("import sk".into());
                let ok = rf::sk_fields_in_range(&p, &bytes);
                match (g_sk(libr, &bytes)?, ok) {
                    (Ok(k), true) => {
                        if g("sk.into_bytes", || k.to_bytes())? != bytes {
                            mismatch(Focus::Serialise, "sk_roundtrip_differs", "an imported private key serialises to different bytes".into())?;
                        }
                        sks.push((k, bytes));
                    }
                    (Err(_), false) => st.class("import_sk:malformed->Err"),
                    (Ok(_), false) => mismatch(Focus::Serialise, "sk_import_accepts_malformed", "PrivateKey::try_from_bytes accepted an s1/s2 field outside [-eta, eta]".into())?,
                    (Err(e), true) => mismatch(Focus::Serialise, "sk_import_err", format!("PrivateKey::try_from_bytes rejected ({e}) a key whose s1/s2 fields are all in range"))?,
                }
            }
            HOp::Sign { sk, msg, ctx, mode, rnd, fault } => {
                if sks.is_empty() {
                    continue;
                }
                let (k, kb) = &sks[*sk as usize % sks.len()];
                let (m, cx, md, r) = (msg.bytes(), ctx.bytes(), gen::mode_of(*mode), rnd.bytes());
                let expect = if cx.len() > 255 {
                    None
                } else {
                    match rf::sign(&p, kb, &m, &cx, md, &r, ITER_CAP) {
                        Ok((s, _)) => Some(s),
                        Err(_) => {
                            st.class("sign:skipped(model needs > 60 iterations)");
                            continue;
                        }
                    }
                };
                let mut rng = TestRng::with_faults(&r, fault.iter().copied().collect(), false);
                let res = g_sign(&**k, &mut rng, &m, &cx, md).map_err(|pi| Fail::panic("sign", &pi))?;
                let fault_hit = rng.log.iter().any(|q| !q.ok);
                history.push(format!("sign({}{}{})", md.tag(), if cx.len() > 255 { ", ctx>255" } else { "" }, if fault_hit { ", failing rng" } else { "" }));
                match (res, expect, fault_hit) {
                    (Err(_), None, _) => st.class("sign:ctx>255->Err"),
                    (Err(_), _, true) => st.class("sign:rng_fault->Err"),
                    (Ok(_), None, _) => mismatch(Focus::Sign, "signed_long_ctx", format!("signing returned a signature for a context of {} bytes", cx.len()))?,
                    (Ok(_), _, true) => mismatch(Focus::Sign, "signed_despite_rng_failure", "signing returned a signature although the generator failed".into())?,
                    (Err(e), Some(_), false) => mismatch(Focus::Sign, "sign_err", format!("signing failed ({e}); FIPS 204 Sign returns a signature for these inputs"))?,
                    (Ok(s), Some(e), false) => {
                        if s != e {
                            mismatch(Focus::Sign, "signature_differs", format!("{} signature differs from FIPS 204 Sign on (this key's bytes, M, ctx, rnd)", md.tag()))?;
                        }
                        st.class("sign:ok");
                        sg.push(SigRec { sig: e, m, ctx: cx, mode: md });
                    }
                }
            }
            HOp::Verify { pk, sig, other_msg, other_ctx, other_mode } => {
                if pks.is_empty() {
                    continue;
                }
                let (k, kb) = &pks[*pk as usize % pks.len()];
                let (mut m, mut cx, mut md, sb) = match sig {
                    SigSel::Uniform(s) => (b"history".to_vec(), vec![], Mode::Pure, gen::prg_bytes(*s, "uniform-sig", p.sig_len)),
                    SigSel::Pool(j) | SigSel::Mutated(j, _) => {
                        if sg.is_empty() {
                            continue;
                        }
                        let r = &sg[*j as usize % sg.len()];
                        let s = if let SigSel::Mutated(_, mu) = sig { sigs::apply_mut(&p, &r.sig, mu) } else { r.sig.clone() };
                        (r.m.clone(), r.ctx.clone(), r.mode, s)
                    }
                };
                if *other_msg {
                    m.push(0x80);
                }
                if let Some(c2) = other_ctx {
                    cx = c2.bytes();
                }
                if let Some(m2) = other_mode {
                    md = gen::mode_of(*m2);
                }
                let expect = rf::verify(&p, kb, &m, &sb, &cx, md).accepted();
                let got = g_verify(&**k, &m, &sb, &cx, md)?;
                history.push(format!("verify({})={got}", md.tag()));
                st.class(if expect { "verify:true" } else { "verify:false" });
                if got != expect {
                    mismatch(Focus::Verify, "verdict_differs", format!("verification returned {got}, FIPS 204 Verify on (this key's bytes, M, sig, ctx) returns {expect}"))?;
                }
            }
            HOp::Derive(j) => {
                if sks.is_empty() {
                    continue;
                }
                let (k, kb) = &sks[*j as usize % sks.len()];
                let expect = model_derive_pk(&p, kb);
                let d = g("get_public_key", || k.public_key())?;
                history.push("derive pk".into());
                if g("pk.into_bytes", || d.to_bytes())? != expect {
                    mismatch(Focus::Derive, "derived_pk_differs", "get_public_key() serialises differently from pkEncode(rho, Power2Round(A s1 + s2).t1) of the key's own fields".into())?;
                }
                st.class("derive");
                pks.push((d, expect));
            }
            HOp::SkBytes(j) => {
                if sks.is_empty() {
                    continue;
                }
                let (k, kb) = &sks[*j as usize % sks.len()];
                if g("sk.into_bytes", || k.to_bytes())? != *kb {
                    mismatch(Focus::Serialise, "sk_bytes_changed", "a private key no longer serialises to the bytes it was created with".into())?;
                }
            }
            HOp::PkBytes(j) => {
                if pks.is_empty() {
                    continue;
                }
                let (k, kb) = &pks[*j as usize % pks.len()];
                if g("pk.into_bytes", || k.to_bytes())? != *kb {
                    mismatch(Focus::Serialise, "pk_bytes_changed", "a public key no longer serialises to the bytes it was created with".into())?;
                }
            }
            HOp::CloneSk(j) => {
                if !sks.is_empty() && sks.len() < 8 {
                    let (k, kb) = &sks[*j as usize % sks.len()];
                    let c2 = (g("sk.clone", || k.clone_box())?, kb.clone());
                    history.push("clone sk".into());
                    sks.push(c2);
                }
            }
            HOp::ClonePk(j) => {
                if !pks.is_empty() && pks.len() < 8 {
                    let (k, kb) = &pks[*j as usize % pks.len()];
                    let c2 = (g("pk.clone", || k.clone_box())?, kb.clone());
                    history.push("clone pk".into());
                    pks.push(c2);
                }
            }
            HOp::AssignSk { dst, src } => {
                if sks.len() >= 2 {
                    let (d, sidx) = (*dst as usize % sks.len(), *src as usize % sks.len());
                    if d != sidx {
                        let (sobj, sbytes) = (g("sk.clone", || sks[sidx].0.clone_box())?, sks[sidx].1.clone());
                        let slot = &mut sks[d];
                        g("sk.clone_from", || slot.0.assign_from(&*sobj))?;
                        slot.1 = sbytes;
                        history.push("sk.clone_from(other)".into());
                        let back = g("sk.into_bytes", || sks[d].0.to_bytes())?;
                        if back != sks[d].1 {
                            mismatch(Focus::Serialise, "sk_clone_from_differs", "after dst.clone_from(&src) the destination private key does not serialise to the source's bytes".into())?;
                        }
                    }
                }
            }
            HOp::AssignPk { dst, src } => {
                if pks.len() >= 2 {
                    let (d, sidx) = (*dst as usize % pks.len(), *src as usize % pks.len());
                    if d != sidx {
                        let (sobj, sbytes) = (g("pk.clone", || pks[sidx].0.clone_box())?, pks[sidx].1.clone());
                        let slot = &mut pks[d];
                        g("pk.clone_from", || slot.0.assign_from(&*sobj))?;
                        slot.1 = sbytes;
                        history.push("pk.clone_from(other)".into());
                        let back = g("pk.into_bytes", || pks[d].0.to_bytes())?;
                        if back != pks[d].1 {
                            mismatch(Focus::Serialise, "pk_clone_from_differs", "after dst.clone_from(&src) the destination public key does not serialise to the source's bytes".into())?;
                        }
                    }
                }
            }
            HOp::DropSk(j) => {
                if sks.len() > 1 {
                    let n = sks.len();
                    let k = sks.remove(*j as usize % n);
                    g("drop(sk)", move || drop(k))?;
                }
            }
            HOp::DropPk(j) => {
                if pks.len() > 1 {
                    let n = pks.len();
                    let k = pks.remove(*j as usize % n);
                    g("drop(pk)", move || drop(k))?;
                }
            }
        }
    }
    if c.ops.len() >= 4 {
        st.nontrivial(c);
    }
    st.sample(&format!("set{}:len{}", p.id, c.ops.len().min(12)), || json!({"set": p.id, "ops": c.ops.iter().map(|o| format!("{o:?}").chars().take(80).collect::<String>()).collect::<Vec<_>>()}));
    Ok(())
}

pub const SUB: &str = "api_history";

pub fn run(ctx: &Ctx, rep: &mut Report, quick: u32, thorough: u32) {
    let focus = Focus::of(&rep.prop);
    rep.assume("api_history: model = the reference functions applied to the serialised form of each pool object; a mismatch is reported only for the op kind this property speaks about (the other kinds are reported by their own property running the same engine)");
    let max_len = if ctx.quick() { 12 } else { 24 };
    run_generated(ctx, rep, SUB, ctx.n(quick, thorough), || strategy(max_len), move |c, st| check(focus, c, st));
}

pub fn replay(prop: &str, case: &Value) -> CheckResult { check(Focus::of(prop), &from_case::<Case>(case), &mut Stats::default()) }
