//! One module per property.
