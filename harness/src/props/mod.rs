//! One module per property: generator + oracle + classification.

use crate::engine::{guarded, CheckResult, Ctx, Fail, PanicInfo, Report};
use crate::libapi::{Lib, PkObj, SkObj, TestRng};
use crate::refmodel::Mode;
use serde_json::Value;

pub mod c01;
pub mod c02;
pub mod c03;
pub mod c04;
pub mod c05;
pub mod c06;
pub mod c07;
pub mod c08;
pub mod c09;
pub mod c10;
pub mod c11;
pub mod c12;
pub mod c13;
pub mod c15;
pub mod c16;
pub mod c18;
pub mod history;

pub const ASSUME_REF: &str = "oracle = independent spec-literal FIPS 204 reference (validated at start-up on the 75 keyGen / 60 sigGen / 45 sigVer ACVP vectors and one external pure-mode KAT); the HashML-DSA wrapper (Algorithms 4/5: domain byte, OIDs, digest lengths) is validated by review only";

pub fn run(id: &str, ctx: &Ctx) -> Option<Report> {
    let mut rep = Report::new(id);
    match id {
        "C01" => c01::run(ctx, &mut rep),
        "C02" => c02::run(ctx, &mut rep),
        "C03" => c03::run(ctx, &mut rep),
        "C04" => c04::run(ctx, &mut rep),
        "C05" => c05::run(ctx, &mut rep),
        "C06" => c06::run(ctx, &mut rep),
        "C07" => c07::run(ctx, &mut rep),
        "C08" => c08::run(ctx, &mut rep),
        "C09" => c09::run(ctx, &mut rep),
        "C10" => c10::run(ctx, &mut rep),
        "C11" => c11::run(ctx, &mut rep),
        "C12" => c12::run(ctx, &mut rep),
        "C13" => c13::run(ctx, &mut rep),
        "C15" => c15::run(ctx, &mut rep),
        "C16" => c16::run(ctx, &mut rep),
        "C18" => c18::run(ctx, &mut rep),
        _ => return None,
    }
    Some(rep)
}

/// Re-execute one saved case without the generator library. `None`: unknown property / sub-check.
pub fn replay(id: &str, ctx: &Ctx, sub: &str, case: &Value) -> Option<CheckResult> {
    if sub == history::SUB {
        return Some(history::replay(id, case));
    }
    match id {
        "C01" => c01::replay(ctx, sub, case),
        "C02" => c02::replay(ctx, sub, case),
        "C03" => c03::replay(ctx, sub, case),
        "C04" => c04::replay(ctx, sub, case),
        "C05" => c05::replay(ctx, sub, case),
        "C06" => c06::replay(ctx, sub, case),
        "C07" => c07::replay(ctx, sub, case),
        "C08" => c08::replay(ctx, sub, case),
        "C09" => c09::replay(ctx, sub, case),
        "C10" => c10::replay(ctx, sub, case),
        "C11" => c11::replay(ctx, sub, case),
        "C12" => c12::replay(ctx, sub, case),
        "C13" => c13::replay(ctx, sub, case),
        "C15" => c15::replay(ctx, sub, case),
        "C16" => c16::replay(ctx, sub, case),
        "C18" => c18::replay(ctx, sub, case),
        _ => None,
    }
}

/// (set index, corpus index) for every `corpus/xof_extremes` seed, paired with the set it was searched for
pub fn rare_seed_cases() -> Vec<(u8, u16)> {
    crate::gen::xof_corpus().iter().enumerate().map(|(i, e)| (match e.set { 44 => 0u8, 65 => 1, _ => 2 }, i as u16)).collect()
}

/// evidence for the rare-seed sub-checks: the most extreme events in the corpus
pub fn rare_seed_maxima(st: &mut crate::engine::Stats) {
    for e in crate::gen::xof_corpus() {
        st.maximum(&format!("expand_a_max_rejections_in_one_entry_set{}", e.set), i64::from(e.max_rej_entry));
        st.maximum(&format!("expand_a_candidate_equal_q_at_block_end_set{}", e.set), i64::from(e.q_at_block_end));
        st.maximum(&format!("expand_s_max_bytes_for_one_polynomial_set{}", e.set), i64::from(e.max_bytes_s));
    }
}

pub fn from_case<T: serde::de::DeserializeOwned>(case: &Value) -> T {
    serde_json::from_value(case.clone()).expect("replay file: case does not match this sub-check")
}

// ---------------------------------------------------------------------------------------------
// Guarded library calls (a panic is an observation, not a crash of the harness)

pub fn g_pk(lib: &dyn Lib, pk: &[u8]) -> Result<Box<dyn PkObj>, Fail> {
    match guarded(|| lib.pk_from_bytes(pk)) {
        Ok(Ok(k)) => Ok(k),
        Ok(Err(e)) => Err(Fail::new("pk_from_bytes:err", format!("PublicKey::try_from_bytes returned Err({e}) for a public-key-length string"))),
        Err(p) => Err(Fail::panic("pk_from_bytes", &p)),
    }
}

pub fn g_verify(pk: &dyn PkObj, m: &[u8], sig: &[u8], ctx: &[u8], mode: Mode) -> Result<bool, Fail> {
    guarded(|| pk.verify(m, sig, ctx, mode)).map_err(|p| Fail::panic("verify", &p))
}

pub fn g_verify_bytes(lib: &dyn Lib, pk: &[u8], m: &[u8], sig: &[u8], ctx: &[u8], mode: Mode) -> Result<bool, Fail> {
    let k = g_pk(lib, pk)?;
    g_verify(&*k, m, sig, ctx, mode)
}

pub fn g_sk(lib: &dyn Lib, sk: &[u8]) -> Result<Result<Box<dyn SkObj>, &'static str>, Fail> {
    guarded(|| lib.sk_from_bytes(sk)).map_err(|p| Fail::panic("sk_from_bytes", &p))
}

pub fn g_sign(sk: &dyn SkObj, rng: &mut TestRng, m: &[u8], ctx: &[u8], mode: Mode) -> Result<Result<Vec<u8>, &'static str>, PanicInfo> {
    guarded(|| sk.sign(rng, m, ctx, mode))
}

pub fn g<T>(op: &str, f: impl FnOnce() -> T) -> Result<T, Fail> { guarded(f).map_err(|p| Fail::panic(op, &p)) }

// ---------------------------------------------------------------------------------------------
// Process history. The properties quantify over inputs, not over what the process did before; a
// library with sticky state (an error latch, a memo of its last input, a health-test fingerprint)
// breaks them only after a particular earlier call. Every `vcheck run` / `replay` therefore starts
// with this fixed sequence of ordinary API calls: failing generators, over-long contexts, malformed
// and junk inputs. Results are ignored (each call is judged in its own property); panics are swallowed.

pub fn history_prelude() -> usize {
    use crate::libapi::{libs, Fault, ERR_CODES};
    use crate::refmodel::MODES;
    let mut calls = 0usize;
    for (n, lib) in libs().into_iter().enumerate() {
        let p = lib.p();
        let xi = [0x5Au8 ^ n as u8; 32];
        let stream = [0xA5u8; 64];
        let Ok((pk, sk)) = guarded(|| lib.keygen_from_seed(&xi)) else { continue };
        let long_ctx = vec![7u8; 256 + 13 * n];
        for (k, code) in ERR_CODES.iter().enumerate() {
            for faults in [vec![Fault::ErrBefore], vec![Fault::ErrAfter(16)], vec![Fault::ErrAfter(32)]] {
                let mut r = TestRng::with_faults(&stream, faults.clone(), false);
                r.err_code = *code;
                let _ = guarded(|| lib.keygen_with_rng(&mut r).is_ok());
                let mut r = TestRng::with_faults(&stream, faults.clone(), false);
                r.err_code = *code;
                let _ = guarded(|| lib.keygen_with_rng_modfn(&mut r).is_ok());
                let mode = MODES[k % 4];
                let mut r = TestRng::with_faults(&stream, faults.clone(), false);
                r.err_code = *code;
                let _ = guarded(|| sk.sign(&mut r, b"history", b"", mode).is_ok());
                // failing generator and over-long context together
                let mut r = TestRng::with_faults(&stream, faults, false);
                r.err_code = *code;
                let _ = guarded(|| sk.sign(&mut r, b"history", &long_ctx, mode).is_ok());
                calls += 4;
            }
        }
        for mode in MODES {
            let mut r = TestRng::replay(&stream);
            let _ = guarded(|| sk.sign(&mut r, b"history", &long_ctx, mode).is_ok());
            let _ = guarded(|| pk.verify(b"history", &vec![0xFF; p.sig_len], &long_ctx, mode));
            let _ = guarded(|| pk.verify(b"history", &vec![0u8; p.sig_len], b"", mode));
            // the same rnd twice in a row
            for _ in 0..2 {
                let mut r = TestRng::replay(&stream);
                let _ = guarded(|| sk.sign(&mut r, b"history", b"c", mode).is_ok());
            }
            calls += 5;
        }
        let _ = guarded(|| sk.internal_sign(b"history", b"", [0u8; 32]).is_ok());
        let _ = guarded(|| pk.internal_verify(b"history", &vec![0x11; p.sig_len], b""));
        let _ = guarded(|| lib.sk_from_bytes(&vec![0xFF; p.sk_len]).is_ok());
        let _ = guarded(|| lib.sk_from_bytes(&vec![0u8; p.sk_len]).is_ok());
        let _ = guarded(|| lib.pk_from_bytes(&vec![0xFF; p.pk_len]).is_ok());
        let _ = guarded(|| lib.pk_from_bytes(&vec![0u8; p.pk_len]).is_ok());
        let _ = guarded(|| lib.keygen_os().is_ok());
        let _ = guarded(|| sk.sign_os(b"history", b"", Mode::Pure).is_ok());
        calls += 8;
    }
    calls
}
