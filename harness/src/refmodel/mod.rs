//! Independent, spec-literal reference implementation of FIPS 204 (August 2024).
//!
//! Transcribed algorithm by algorithm from the standard with `i64` arithmetic and `rem_euclid`;
//! no Montgomery form, no lazy reduction, no precomputed key structs. Keys and signatures are
//! plain byte strings exactly as in the standard. Shares no code with the `fips204` crate; uses
//! the `sha2`/`sha3` crates for SHA-256, SHA-512, SHAKE128 and SHAKE256.
#![allow(clippy::needless_range_loop, clippy::many_single_char_names)]

use sha2::{Digest, Sha256, Sha512};
use sha3::digest::{ExtendableOutput, Update, XofReader};
use sha3::{Shake128, Shake256};
use std::sync::OnceLock;

pub const Q: i64 = 8_380_417;
pub const D: u32 = 13;
pub const ZETA: i64 = 1753;
pub const N: usize = 256;

pub type Poly = [i64; N];
pub const ZERO: Poly = [0i64; N];

/// Table 1 / Table 2 of FIPS 204.
#[derive(Clone, Copy, Debug, PartialEq, Eq)]
pub struct Params {
    pub id: u32,
    pub tau: usize,
    pub lambda: usize,
    pub gamma1: i64,
    pub gamma2: i64,
    pub k: usize,
    pub l: usize,
    pub eta: i64,
    pub beta: i64,
    pub omega: usize,
    pub pk_len: usize,
    pub sk_len: usize,
    pub sig_len: usize,
}

pub const P44: Params = Params {
    id: 44,
    tau: 39,
    lambda: 128,
    gamma1: 1 << 17,
    gamma2: (Q - 1) / 88,
    k: 4,
    l: 4,
    eta: 2,
    beta: 78,
    omega: 80,
    pk_len: 1312,
    sk_len: 2560,
    sig_len: 2420,
};
pub const P65: Params = Params {
    id: 65,
    tau: 49,
    lambda: 192,
    gamma1: 1 << 19,
    gamma2: (Q - 1) / 32,
    k: 6,
    l: 5,
    eta: 4,
    beta: 196,
    omega: 55,
    pk_len: 1952,
    sk_len: 4032,
    sig_len: 3309,
};
pub const P87: Params = Params {
    id: 87,
    tau: 60,
    lambda: 256,
    gamma1: 1 << 19,
    gamma2: (Q - 1) / 32,
    k: 8,
    l: 7,
    eta: 2,
    beta: 120,
    omega: 75,
    pk_len: 2592,
    sk_len: 4896,
    sig_len: 4627,
};
pub const ALL: [Params; 3] = [P44, P65, P87];

pub fn params(id: u32) -> Params {
    match id {
        44 => P44,
        65 => P65,
        87 => P87,
        _ => panic!("unknown parameter set {id}"),
    }
}

impl Params {
    pub fn ctilde_len(&self) -> usize { self.lambda / 4 }
    pub fn z_bits(&self) -> usize { 1 + bitlen(self.gamma1 - 1) }
    pub fn eta_bits(&self) -> usize { bitlen(2 * self.eta) }
    pub fn w1_max(&self) -> i64 { (Q - 1) / (2 * self.gamma2) - 1 }
    pub fn w1_bits(&self) -> usize { bitlen(self.w1_max()) }
    pub fn sig_z_off(&self) -> usize { self.ctilde_len() }
    pub fn sig_h_off(&self) -> usize { self.ctilde_len() + self.l * 32 * self.z_bits() }
    pub fn sk_s1_off(&self) -> usize { 128 }
    pub fn sk_s2_off(&self) -> usize { 128 + self.l * 32 * self.eta_bits() }
    pub fn sk_t0_off(&self) -> usize { 128 + (self.l + self.k) * 32 * self.eta_bits() }
    /// Consistency of Table 2 sizes with the formulas in the standard.
    pub fn check_sizes(&self) {
        assert_eq!(self.beta, self.tau as i64 * self.eta);
        assert_eq!(self.pk_len, 32 + 32 * self.k * (bitlen(Q - 1) - D as usize));
        assert_eq!(
            self.sk_len,
            32 + 32 + 64 + 32 * ((self.l + self.k) * bitlen(2 * self.eta) + D as usize * self.k)
        );
        assert_eq!(
            self.sig_len,
            self.lambda / 4 + self.l * 32 * (1 + bitlen(self.gamma1 - 1)) + self.omega + self.k
        );
    }
}

// ---------------------------------------------------------------------------------------------
// Section 2.3 notation

pub fn bitlen(x: i64) -> usize {
    assert!(x > 0);
    (64 - x.leading_zeros()) as usize
}

pub fn mod_q(x: i64) -> i64 { x.rem_euclid(Q) }

/// `m mod± alpha`: the unique m' with -alpha/2 < m' <= alpha/2 congruent to m.
pub fn mod_pm(m: i64, alpha: i64) -> i64 {
    let r = m.rem_euclid(alpha);
    // real-number comparison r > alpha/2  <=>  2r > alpha
    if 2 * r > alpha {
        r - alpha
    } else {
        r
    }
}

pub fn inf_norm_coeff(w: i64) -> i64 { mod_pm(w, Q).abs() }

pub fn inf_norm(v: &[Poly]) -> i64 {
    v.iter().flat_map(|p| p.iter()).map(|&c| inf_norm_coeff(c)).max().unwrap_or(0)
}

// ---------------------------------------------------------------------------------------------
// Hash functions (section 3.7)

pub fn h_bytes(parts: &[&[u8]], out_len: usize) -> Vec<u8> {
    let mut s = Shake256::default();
    for p in parts {
        s.update(p);
    }
    let mut out = vec![0u8; out_len];
    s.finalize_xof().read(&mut out);
    out
}

pub struct HXof(sha3::Shake256Reader);
impl HXof {
    pub fn new(parts: &[&[u8]]) -> Self {
        let mut s = Shake256::default();
        for p in parts {
            s.update(p);
        }
        HXof(s.finalize_xof())
    }
    pub fn squeeze(&mut self, n: usize) -> Vec<u8> {
        let mut out = vec![0u8; n];
        self.0.read(&mut out);
        out
    }
}

pub struct GXof(sha3::Shake128Reader);
impl GXof {
    pub fn new(parts: &[&[u8]]) -> Self {
        let mut s = Shake128::default();
        for p in parts {
            s.update(p);
        }
        GXof(s.finalize_xof())
    }
    pub fn squeeze(&mut self, n: usize) -> Vec<u8> {
        let mut out = vec![0u8; n];
        self.0.read(&mut out);
        out
    }
}

// ---------------------------------------------------------------------------------------------
// Algorithms 9-13: data type conversion

/// Algorithm 9
pub fn integer_to_bits(x: i64, alpha: usize) -> Vec<u8> {
    assert!(x >= 0);
    let mut xp = x;
    let mut y = vec![0u8; alpha];
    for i in 0..alpha {
        y[i] = (xp % 2) as u8;
        xp /= 2;
    }
    y
}

/// Algorithm 10
pub fn bits_to_integer(y: &[u8], alpha: usize) -> i64 {
    let mut x = 0i64;
    for i in 1..=alpha {
        x = 2 * x + i64::from(y[alpha - i]);
    }
    x
}

/// Algorithm 11
pub fn integer_to_bytes(x: i64, alpha: usize) -> Vec<u8> {
    assert!(x >= 0);
    let mut xp = x;
    let mut y = vec![0u8; alpha];
    for i in 0..alpha {
        y[i] = (xp % 256) as u8;
        xp /= 256;
    }
    y
}

/// Algorithm 12
pub fn bits_to_bytes(y: &[u8]) -> Vec<u8> {
    let alpha = y.len();
    let mut z = vec![0u8; alpha.div_ceil(8)];
    for i in 0..alpha {
        z[i / 8] += y[i] << (i % 8);
    }
    z
}

/// Algorithm 13
pub fn bytes_to_bits(z: &[u8]) -> Vec<u8> {
    let mut y = vec![0u8; 8 * z.len()];
    for i in 0..z.len() {
        let mut zi = z[i];
        for j in 0..8 {
            y[8 * i + j] = zi % 2;
            zi /= 2;
        }
    }
    y
}

/// Algorithm 14. `None` is the standard's ⊥.
pub fn coeff_from_three_bytes(b0: u8, b1: u8, b2: u8) -> Option<i64> {
    let mut b2p = i64::from(b2);
    if b2p > 127 {
        b2p -= 128;
    }
    let z = 65536 * b2p + 256 * i64::from(b1) + i64::from(b0);
    if z < Q {
        Some(z)
    } else {
        None
    }
}

/// Algorithm 15
pub fn coeff_from_half_byte(eta: i64, b: u8) -> Option<i64> {
    assert!(b < 16);
    let b = i64::from(b);
    if eta == 2 && b < 15 {
        Some(2 - (b % 5))
    } else if eta == 4 && b < 9 {
        Some(4 - b)
    } else {
        None
    }
}

/// Algorithm 16
pub fn simple_bit_pack(w: &Poly, b: i64) -> Vec<u8> {
    let mut z = Vec::with_capacity(N * bitlen(b));
    for i in 0..N {
        assert!(w[i] >= 0 && w[i] <= b, "SimpleBitPack precondition");
        z.extend_from_slice(&integer_to_bits(w[i], bitlen(b)));
    }
    bits_to_bytes(&z)
}

/// Algorithm 17
pub fn bit_pack(w: &Poly, a: i64, b: i64) -> Vec<u8> {
    let mut z = Vec::with_capacity(N * bitlen(a + b));
    for i in 0..N {
        assert!(w[i] >= -a && w[i] <= b, "BitPack precondition");
        z.extend_from_slice(&integer_to_bits(b - w[i], bitlen(a + b)));
    }
    bits_to_bytes(&z)
}

/// Algorithm 18
pub fn simple_bit_unpack(v: &[u8], b: i64) -> Poly {
    let c = bitlen(b);
    assert_eq!(v.len(), 32 * c);
    let z = bytes_to_bits(v);
    let mut w = ZERO;
    for i in 0..N {
        w[i] = bits_to_integer(&z[i * c..i * c + c], c);
    }
    w
}

/// Algorithm 19
pub fn bit_unpack(v: &[u8], a: i64, b: i64) -> Poly {
    let c = bitlen(a + b);
    assert_eq!(v.len(), 32 * c);
    let z = bytes_to_bits(v);
    let mut w = ZERO;
    for i in 0..N {
        w[i] = b - bits_to_integer(&z[i * c..i * c + c], c);
    }
    w
}

/// Algorithm 20 (generic in omega and k so that reduced instances can be enumerated).
pub fn hint_bit_pack(omega: usize, h: &[Poly]) -> Vec<u8> {
    let k = h.len();
    let mut y = vec![0u8; omega + k];
    let mut index = 0usize;
    for i in 0..k {
        for j in 0..N {
            if h[i][j] != 0 {
                y[index] = j as u8;
                index += 1;
            }
        }
        y[omega + i] = index as u8;
    }
    y
}

/// Algorithm 21. `Err(line)` is the standard's ⊥ with the pseudo-code line that returned it.
pub fn hint_bit_unpack(omega: usize, k: usize, y: &[u8]) -> Result<Vec<Poly>, u8> {
    assert_eq!(y.len(), omega + k);
    let mut h = vec![ZERO; k];
    let mut index = 0usize;
    for i in 0..k {
        if (y[omega + i] as usize) < index || (y[omega + i] as usize) > omega {
            return Err(4);
        }
        let first = index;
        while index < y[omega + i] as usize {
            if index > first && y[index - 1] >= y[index] {
                return Err(9);
            }
            h[i][y[index] as usize] = 1;
            index += 1;
        }
    }
    for i in index..omega {
        if y[i] != 0 {
            return Err(17);
        }
    }
    Ok(h)
}

// ---------------------------------------------------------------------------------------------
// Algorithms 22-28: encodings

/// Algorithm 22
pub fn pk_encode(p: &Params, rho: &[u8], t1: &[Poly]) -> Vec<u8> {
    let mut pk = rho.to_vec();
    let b = (1i64 << (bitlen(Q - 1) - D as usize)) - 1;
    for i in 0..p.k {
        pk.extend_from_slice(&simple_bit_pack(&t1[i], b));
    }
    pk
}

/// Algorithm 23
pub fn pk_decode(p: &Params, pk: &[u8]) -> (Vec<u8>, Vec<Poly>) {
    assert_eq!(pk.len(), p.pk_len);
    let c = bitlen(Q - 1) - D as usize;
    let rho = pk[0..32].to_vec();
    let mut t1 = Vec::new();
    for i in 0..p.k {
        let zi = &pk[32 + i * 32 * c..32 + (i + 1) * 32 * c];
        t1.push(simple_bit_unpack(zi, (1i64 << c) - 1));
    }
    (rho, t1)
}

pub struct SkFields {
    pub rho: Vec<u8>,
    pub key: Vec<u8>,
    pub tr: Vec<u8>,
    pub s1: Vec<Poly>,
    pub s2: Vec<Poly>,
    pub t0: Vec<Poly>,
}

/// Algorithm 24
pub fn sk_encode(p: &Params, f: &SkFields) -> Vec<u8> {
    let mut sk = Vec::with_capacity(p.sk_len);
    sk.extend_from_slice(&f.rho);
    sk.extend_from_slice(&f.key);
    sk.extend_from_slice(&f.tr);
    for i in 0..p.l {
        sk.extend_from_slice(&bit_pack(&f.s1[i], p.eta, p.eta));
    }
    for i in 0..p.k {
        sk.extend_from_slice(&bit_pack(&f.s2[i], p.eta, p.eta));
    }
    for i in 0..p.k {
        sk.extend_from_slice(&bit_pack(&f.t0[i], (1 << (D - 1)) - 1, 1 << (D - 1)));
    }
    sk
}

/// Algorithm 25 (as in the standard: never rejects; s1/s2 may be out of range on malformed input).
pub fn sk_decode(p: &Params, sk: &[u8]) -> SkFields {
    assert_eq!(sk.len(), p.sk_len);
    let eb = 32 * bitlen(2 * p.eta);
    let mut off = 128;
    let mut s1 = Vec::new();
    for _ in 0..p.l {
        s1.push(bit_unpack(&sk[off..off + eb], p.eta, p.eta));
        off += eb;
    }
    let mut s2 = Vec::new();
    for _ in 0..p.k {
        s2.push(bit_unpack(&sk[off..off + eb], p.eta, p.eta));
        off += eb;
    }
    let mut t0 = Vec::new();
    for _ in 0..p.k {
        t0.push(bit_unpack(&sk[off..off + 32 * D as usize], (1 << (D - 1)) - 1, 1 << (D - 1)));
        off += 32 * D as usize;
    }
    assert_eq!(off, sk.len());
    SkFields {
        rho: sk[0..32].to_vec(),
        key: sk[32..64].to_vec(),
        tr: sk[64..128].to_vec(),
        s1,
        s2,
        t0,
    }
}

/// Pure bit arithmetic on the byte string: is every s1/s2 field of `sk` within [-eta, eta]?
/// (field value v encodes eta - v; in range iff v <= 2*eta). Shares nothing with `sk_decode`.
pub fn sk_fields_in_range(p: &Params, sk: &[u8]) -> bool {
    let c = bitlen(2 * p.eta);
    let nfields = (p.l + p.k) * N;
    let base = 128 * 8;
    for f in 0..nfields {
        let mut v = 0i64;
        for b in 0..c {
            let bit = base + f * c + b;
            v |= i64::from((sk[bit / 8] >> (bit % 8)) & 1) << b;
        }
        if v > 2 * p.eta {
            return false;
        }
    }
    true
}

/// Algorithm 26
pub fn sig_encode(p: &Params, c_tilde: &[u8], z: &[Poly], h: &[Poly]) -> Vec<u8> {
    let mut s = c_tilde.to_vec();
    for i in 0..p.l {
        s.extend_from_slice(&bit_pack(&z[i], p.gamma1 - 1, p.gamma1));
    }
    s.extend_from_slice(&hint_bit_pack(p.omega, h));
    s
}

pub struct SigFields {
    pub c_tilde: Vec<u8>,
    pub z: Vec<Poly>,
    /// `Err(line)`: HintBitUnpack returned ⊥ at that line.
    pub h: Result<Vec<Poly>, u8>,
}

/// Algorithm 27
pub fn sig_decode(p: &Params, sigma: &[u8]) -> SigFields {
    assert_eq!(sigma.len(), p.sig_len);
    let cl = p.ctilde_len();
    let zb = 32 * p.z_bits();
    let c_tilde = sigma[0..cl].to_vec();
    let mut z = Vec::new();
    for i in 0..p.l {
        z.push(bit_unpack(&sigma[cl + i * zb..cl + (i + 1) * zb], p.gamma1 - 1, p.gamma1));
    }
    let h = hint_bit_unpack(p.omega, p.k, &sigma[cl + p.l * zb..]);
    SigFields { c_tilde, z, h }
}

/// Algorithm 28
pub fn w1_encode(p: &Params, w1: &[Poly]) -> Vec<u8> {
    let mut out = Vec::new();
    for i in 0..p.k {
        out.extend_from_slice(&simple_bit_pack(&w1[i], p.w1_max()));
    }
    out
}

// ---------------------------------------------------------------------------------------------
// Algorithms 29-34: sampling

/// Algorithm 29
pub fn sample_in_ball(p: &Params, rho: &[u8]) -> Poly {
    let mut c = ZERO;
    let mut ctx = HXof::new(&[rho]);
    let s = ctx.squeeze(8);
    let h = bytes_to_bits(&s);
    for i in (256 - p.tau)..=255 {
        let mut j = ctx.squeeze(1)[0] as usize;
        while j > i {
            j = ctx.squeeze(1)[0] as usize;
        }
        c[i] = c[j];
        c[j] = if h[i + p.tau - 256] == 1 { -1 } else { 1 };
    }
    c
}

#[derive(Default, Clone, Copy, Debug)]
pub struct SampleStats {
    pub rej3: u64,
    pub rej_half: u64,
}

/// Algorithm 30
pub fn rej_ntt_poly(rho: &[u8], st: &mut SampleStats) -> Poly {
    assert_eq!(rho.len(), 34);
    let mut a = ZERO;
    let mut j = 0;
    let mut ctx = GXof::new(&[rho]);
    while j < 256 {
        let s = ctx.squeeze(3);
        match coeff_from_three_bytes(s[0], s[1], s[2]) {
            Some(v) => {
                a[j] = v;
                j += 1;
            }
            None => st.rej3 += 1,
        }
    }
    a
}

/// Algorithm 31
pub fn rej_bounded_poly(eta: i64, rho: &[u8], st: &mut SampleStats) -> Poly {
    assert_eq!(rho.len(), 66);
    let mut a = ZERO;
    let mut j = 0;
    let mut ctx = HXof::new(&[rho]);
    while j < 256 {
        let z = ctx.squeeze(1)[0];
        let z0 = coeff_from_half_byte(eta, z % 16);
        let z1 = coeff_from_half_byte(eta, z / 16);
        match z0 {
            Some(v) => {
                a[j] = v;
                j += 1;
            }
            None => st.rej_half += 1,
        }
        match z1 {
            Some(v) => {
                if j < 256 {
                    a[j] = v;
                    j += 1;
                }
            }
            None => st.rej_half += 1,
        }
    }
    a
}

/// Algorithm 32: returns `a[r][s]` (NTT domain).
pub fn expand_a(p: &Params, rho: &[u8], st: &mut SampleStats) -> Vec<Vec<Poly>> {
    let mut a = Vec::new();
    for r in 0..p.k {
        let mut row = Vec::new();
        for s in 0..p.l {
            let mut rp = rho.to_vec();
            rp.extend_from_slice(&integer_to_bytes(s as i64, 1));
            rp.extend_from_slice(&integer_to_bytes(r as i64, 1));
            row.push(rej_ntt_poly(&rp, st));
        }
        a.push(row);
    }
    a
}

/// Algorithm 33
pub fn expand_s(p: &Params, rho: &[u8], st: &mut SampleStats) -> (Vec<Poly>, Vec<Poly>) {
    assert_eq!(rho.len(), 64);
    let mut s1 = Vec::new();
    for r in 0..p.l {
        let mut rp = rho.to_vec();
        rp.extend_from_slice(&integer_to_bytes(r as i64, 2));
        s1.push(rej_bounded_poly(p.eta, &rp, st));
    }
    let mut s2 = Vec::new();
    for r in 0..p.k {
        let mut rp = rho.to_vec();
        rp.extend_from_slice(&integer_to_bytes((r + p.l) as i64, 2));
        s2.push(rej_bounded_poly(p.eta, &rp, st));
    }
    (s1, s2)
}

/// Algorithm 34
pub fn expand_mask(p: &Params, rho: &[u8], mu: i64) -> Vec<Poly> {
    assert_eq!(rho.len(), 64);
    let c = 1 + bitlen(p.gamma1 - 1);
    let mut y = Vec::new();
    for r in 0..p.l {
        let mut rp = rho.to_vec();
        rp.extend_from_slice(&integer_to_bytes(mu + r as i64, 2));
        let v = h_bytes(&[&rp], 32 * c);
        y.push(bit_unpack(&v, p.gamma1 - 1, p.gamma1));
    }
    y
}

// ---------------------------------------------------------------------------------------------
// Algorithms 35-40: high/low bits and hints

/// Algorithm 35
pub fn power2round(r: i64) -> (i64, i64) {
    let rp = mod_q(r);
    let r0 = mod_pm(rp, 1 << D);
    ((rp - r0) / (1 << D), r0)
}

/// Algorithm 36
pub fn decompose(gamma2: i64, r: i64) -> (i64, i64) {
    let rp = mod_q(r);
    let mut r0 = mod_pm(rp, 2 * gamma2);
    let r1;
    if rp - r0 == Q - 1 {
        r1 = 0;
        r0 -= 1;
    } else {
        r1 = (rp - r0) / (2 * gamma2);
    }
    (r1, r0)
}

/// Algorithm 37
pub fn high_bits(gamma2: i64, r: i64) -> i64 { decompose(gamma2, r).0 }

/// Algorithm 38
pub fn low_bits(gamma2: i64, r: i64) -> i64 { decompose(gamma2, r).1 }

/// Algorithm 39
pub fn make_hint(gamma2: i64, z: i64, r: i64) -> bool {
    let r1 = high_bits(gamma2, r);
    let v1 = high_bits(gamma2, r + z);
    r1 != v1
}

/// Algorithm 40
pub fn use_hint(gamma2: i64, h: i64, r: i64) -> i64 {
    let m = (Q - 1) / (2 * gamma2);
    let (r1, r0) = decompose(gamma2, r);
    if h == 1 && r0 > 0 {
        return (r1 + 1).rem_euclid(m);
    }
    if h == 1 && r0 <= 0 {
        return (r1 - 1).rem_euclid(m);
    }
    r1
}

// ---------------------------------------------------------------------------------------------
// Algorithms 41-48: NTT arithmetic

pub fn pow_mod(mut b: i64, mut e: u64) -> i64 {
    let mut r = 1i64;
    b = mod_q(b);
    while e > 0 {
        if e & 1 == 1 {
            r = r * b % Q;
        }
        b = b * b % Q;
        e >>= 1;
    }
    r
}

/// Algorithm 43
pub fn bitrev8(m: usize) -> usize {
    let b = integer_to_bits(m as i64, 8);
    let mut brev = [0u8; 8];
    for i in 0..8 {
        brev[i] = b[7 - i];
    }
    bits_to_integer(&brev, 8) as usize
}

/// zetas[m] = zeta^{BitRev8(m)} mod q
pub fn zetas() -> &'static [i64; 256] {
    static Z: OnceLock<[i64; 256]> = OnceLock::new();
    Z.get_or_init(|| core::array::from_fn(|m| pow_mod(ZETA, bitrev8(m) as u64)))
}

/// Algorithm 41
pub fn ntt(w: &Poly) -> Poly {
    let zt = zetas();
    let mut wh: Poly = core::array::from_fn(|j| mod_q(w[j]));
    let mut m = 0;
    let mut len = 128;
    while len >= 1 {
        let mut start = 0;
        while start < 256 {
            m += 1;
            let z = zt[m];
            for j in start..start + len {
                let t = z * wh[j + len] % Q;
                wh[j + len] = mod_q(wh[j] - t);
                wh[j] = mod_q(wh[j] + t);
            }
            start += 2 * len;
        }
        len /= 2;
    }
    wh
}

/// Algorithm 42
pub fn ntt_inv(wh: &Poly) -> Poly {
    let zt = zetas();
    let mut w: Poly = core::array::from_fn(|j| mod_q(wh[j]));
    let mut m = 256;
    let mut len = 1;
    while len < 256 {
        let mut start = 0;
        while start < 256 {
            m -= 1;
            let z = mod_q(-zt[m]);
            for j in start..start + len {
                let t = w[j];
                w[j] = mod_q(t + w[j + len]);
                w[j + len] = mod_q(t - w[j + len]);
                w[j + len] = z * w[j + len] % Q;
            }
            start += 2 * len;
        }
        len *= 2;
    }
    let f = 8_347_681i64;
    for j in 0..256 {
        w[j] = f * w[j] % Q;
    }
    w
}

/// Algorithm 44
pub fn add_ntt(a: &Poly, b: &Poly) -> Poly { core::array::from_fn(|i| mod_q(a[i] + b[i])) }

pub fn sub_poly(a: &Poly, b: &Poly) -> Poly { core::array::from_fn(|i| mod_q(a[i] - b[i])) }

/// Algorithm 45
pub fn multiply_ntt(a: &Poly, b: &Poly) -> Poly {
    core::array::from_fn(|i| mod_q(a[i]) * mod_q(b[i]) % Q)
}

/// Algorithm 48
pub fn matrix_vector_ntt(a: &[Vec<Poly>], v: &[Poly]) -> Vec<Poly> {
    let mut w = Vec::new();
    for i in 0..a.len() {
        let mut acc = ZERO;
        for j in 0..v.len() {
            acc = add_ntt(&acc, &multiply_ntt(&a[i][j], &v[j]));
        }
        w.push(acc);
    }
    w
}

/// Schoolbook product in Z_q[X]/(X^256+1) (independent of the NTT; i128 accumulation).
pub fn schoolbook_mul(a: &Poly, b: &Poly) -> Poly {
    let mut acc = [0i128; N];
    for i in 0..N {
        if a[i] == 0 {
            continue;
        }
        for j in 0..N {
            let prod = i128::from(a[i]) * i128::from(b[j]);
            if i + j < N {
                acc[i + j] += prod;
            } else {
                acc[i + j - N] -= prod;
            }
        }
    }
    core::array::from_fn(|i| acc[i].rem_euclid(i128::from(Q)) as i64)
}

// ---------------------------------------------------------------------------------------------
// Algorithm 6: key generation

#[derive(Default, Clone, Copy, Debug)]
pub struct KeygenStats {
    pub sample: SampleStats,
    pub p2r_ties: u64,
}

pub fn keygen_internal(p: &Params, xi: &[u8]) -> (Vec<u8>, Vec<u8>) {
    let mut st = KeygenStats::default();
    keygen_internal_stats(p, xi, &mut st)
}

pub fn keygen_internal_stats(p: &Params, xi: &[u8], st: &mut KeygenStats) -> (Vec<u8>, Vec<u8>) {
    assert_eq!(xi.len(), 32);
    let seed = h_bytes(
        &[xi, &integer_to_bytes(p.k as i64, 1), &integer_to_bytes(p.l as i64, 1)],
        128,
    );
    let (rho, rest) = seed.split_at(32);
    let (rho_p, key) = rest.split_at(64);
    let a_hat = expand_a(p, rho, &mut st.sample);
    let (s1, s2) = expand_s(p, rho_p, &mut st.sample);
    let s1_hat: Vec<Poly> = s1.iter().map(ntt).collect();
    let as1: Vec<Poly> = matrix_vector_ntt(&a_hat, &s1_hat).iter().map(ntt_inv).collect();
    let mut t1 = vec![ZERO; p.k];
    let mut t0 = vec![ZERO; p.k];
    for i in 0..p.k {
        for j in 0..N {
            let t = mod_q(as1[i][j] + s2[i][j]);
            let (a, b) = power2round(t);
            if b == 1 << (D - 1) {
                st.p2r_ties += 1;
            }
            t1[i][j] = a;
            t0[i][j] = b;
        }
    }
    let pk = pk_encode(p, rho, &t1);
    let tr = h_bytes(&[&pk], 64);
    let sk = sk_encode(
        p,
        &SkFields { rho: rho.to_vec(), key: key.to_vec(), tr, s1, s2, t0 },
    );
    (pk, sk)
}

// ---------------------------------------------------------------------------------------------
// Algorithm 7: signing

#[derive(Clone, Copy, Debug, PartialEq, Eq)]
pub enum Reject {
    ZNorm,
    R0Norm,
    Ct0Norm,
    HintWeight,
}

#[derive(Clone, Debug, Default)]
pub struct SignDiag {
    pub iterations: u32,
    pub rejects: Vec<Reject>,
    pub max_z: i64,
    pub max_r0: i64,
    pub max_ct0: i64,
    pub hint_weight: usize,
    pub hint_per_poly: Vec<usize>,
}

#[derive(Debug, Clone, PartialEq, Eq)]
pub enum SignError {
    CtxTooLong,
    /// the rejection loop exceeded the iteration cap given by the caller (not a FIPS outcome)
    IterationCap,
}

pub fn sign_internal(
    p: &Params, sk: &[u8], m_prime: &[u8], rnd: &[u8], max_iters: u32,
) -> Result<(Vec<u8>, SignDiag), SignError> {
    assert_eq!(rnd.len(), 32);
    let f = sk_decode(p, sk);
    let s1_hat: Vec<Poly> = f.s1.iter().map(ntt).collect();
    let s2_hat: Vec<Poly> = f.s2.iter().map(ntt).collect();
    let t0_hat: Vec<Poly> = f.t0.iter().map(ntt).collect();
    let mut st = SampleStats::default();
    let a_hat = expand_a(p, &f.rho, &mut st);
    let mu = h_bytes(&[&f.tr, m_prime], 64);
    let rho_pp = h_bytes(&[&f.key, rnd, &mu], 64);
    let mut kappa: i64 = 0;
    let mut diag = SignDiag::default();
    loop {
        if diag.iterations >= max_iters {
            return Err(SignError::IterationCap);
        }
        diag.iterations += 1;
        let y = expand_mask(p, &rho_pp, kappa);
        let y_hat: Vec<Poly> = y.iter().map(ntt).collect();
        let w: Vec<Poly> = matrix_vector_ntt(&a_hat, &y_hat).iter().map(ntt_inv).collect();
        let w1: Vec<Poly> =
            w.iter().map(|wp| core::array::from_fn(|j| high_bits(p.gamma2, wp[j]))).collect();
        let c_tilde = h_bytes(&[&mu, &w1_encode(p, &w1)], p.ctilde_len());
        let c = sample_in_ball(p, &c_tilde);
        let c_hat = ntt(&c);
        let cs1: Vec<Poly> = s1_hat.iter().map(|s| ntt_inv(&multiply_ntt(&c_hat, s))).collect();
        let cs2: Vec<Poly> = s2_hat.iter().map(|s| ntt_inv(&multiply_ntt(&c_hat, s))).collect();
        let z: Vec<Poly> = (0..p.l).map(|i| add_ntt(&y[i], &cs1[i])).collect();
        let w_cs2: Vec<Poly> = (0..p.k).map(|i| sub_poly(&w[i], &cs2[i])).collect();
        let r0: Vec<Poly> =
            w_cs2.iter().map(|x| core::array::from_fn(|j| low_bits(p.gamma2, x[j]))).collect();
        let zn = inf_norm(&z);
        let r0n = inf_norm(&r0);
        kappa += p.l as i64;
        if zn >= p.gamma1 - p.beta || r0n >= p.gamma2 - p.beta {
            diag.rejects.push(if zn >= p.gamma1 - p.beta { Reject::ZNorm } else { Reject::R0Norm });
            continue;
        }
        let ct0: Vec<Poly> = t0_hat.iter().map(|t| ntt_inv(&multiply_ntt(&c_hat, t))).collect();
        let mut h = vec![ZERO; p.k];
        let mut per = vec![0usize; p.k];
        for i in 0..p.k {
            for j in 0..N {
                let hint = make_hint(p.gamma2, mod_q(-ct0[i][j]), mod_q(w_cs2[i][j] + ct0[i][j]));
                h[i][j] = i64::from(hint);
                per[i] += usize::from(hint);
            }
        }
        let ct0n = inf_norm(&ct0);
        let weight: usize = per.iter().sum();
        if ct0n >= p.gamma2 || weight > p.omega {
            diag.rejects.push(if ct0n >= p.gamma2 { Reject::Ct0Norm } else { Reject::HintWeight });
            continue;
        }
        diag.max_z = zn;
        diag.max_r0 = r0n;
        diag.max_ct0 = ct0n;
        diag.hint_weight = weight;
        diag.hint_per_poly = per;
        let zc: Vec<Poly> = z.iter().map(|x| core::array::from_fn(|j| mod_pm(x[j], Q))).collect();
        return Ok((sig_encode(p, &c_tilde, &zc, &h), diag));
    }
}

// ---------------------------------------------------------------------------------------------
// Algorithm 8: verification

#[derive(Clone, Copy, Debug, PartialEq, Eq, Hash)]
pub enum Verdict {
    Accept,
    CtxTooLong,
    /// HintBitUnpack returned ⊥ at pseudo-code line 4, 9 or 17
    Hint(u8),
    Norm,
    Hash,
    NormAndHash,
}

impl Verdict {
    pub fn accepted(self) -> bool { self == Verdict::Accept }
    pub fn tag(self) -> &'static str {
        match self {
            Verdict::Accept => "accept",
            Verdict::CtxTooLong => "ctx",
            Verdict::Hint(4) => "hint4",
            Verdict::Hint(9) => "hint9",
            Verdict::Hint(_) => "hint17",
            Verdict::Norm => "norm",
            Verdict::Hash => "hash",
            Verdict::NormAndHash => "norm+hash",
        }
    }
}

/// w'_approx = A z - c t1 2^d (step 9), exposed for the constructions of gen::forge.
pub fn w_approx(p: &Params, pk: &[u8], c_tilde: &[u8], z: &[Poly]) -> Vec<Poly> {
    let (rho, t1) = pk_decode(p, pk);
    let mut st = SampleStats::default();
    let a_hat = expand_a(p, &rho, &mut st);
    let c = sample_in_ball(p, c_tilde);
    let z_hat: Vec<Poly> = z.iter().map(ntt).collect();
    let az = matrix_vector_ntt(&a_hat, &z_hat);
    let c_hat = ntt(&c);
    (0..p.k)
        .map(|i| {
            let t1d: Poly = core::array::from_fn(|j| mod_q(t1[i][j] * (1 << D)));
            let ct1 = multiply_ntt(&c_hat, &ntt(&t1d));
            ntt_inv(&sub_poly(&az[i], &ct1))
        })
        .collect()
}

pub fn verify_internal(p: &Params, pk: &[u8], m_prime: &[u8], sigma: &[u8]) -> Verdict {
    let sf = sig_decode(p, sigma);
    let h = match sf.h {
        Ok(h) => h,
        Err(line) => return Verdict::Hint(line),
    };
    let tr = h_bytes(&[pk], 64);
    let mu = h_bytes(&[&tr, m_prime], 64);
    let wa = w_approx(p, pk, &sf.c_tilde, &sf.z);
    let w1: Vec<Poly> = (0..p.k)
        .map(|i| core::array::from_fn(|j| use_hint(p.gamma2, h[i][j], wa[i][j])))
        .collect();
    let c_tilde_p = h_bytes(&[&mu, &w1_encode(p, &w1)], p.ctilde_len());
    let norm_ok = inf_norm(&sf.z) < p.gamma1 - p.beta;
    let hash_ok = sf.c_tilde == c_tilde_p;
    match (norm_ok, hash_ok) {
        (true, true) => Verdict::Accept,
        (false, true) => Verdict::Norm,
        (true, false) => Verdict::Hash,
        (false, false) => Verdict::NormAndHash,
    }
}

// ---------------------------------------------------------------------------------------------
// Algorithms 2-5: external interface

#[derive(Clone, Copy, Debug, PartialEq, Eq, Hash)]
pub enum Mode {
    Pure,
    Sha256,
    Sha512,
    Shake128,
}
pub const MODES: [Mode; 4] = [Mode::Pure, Mode::Sha256, Mode::Sha512, Mode::Shake128];

impl Mode {
    pub fn tag(self) -> &'static str {
        match self {
            Mode::Pure => "pure",
            Mode::Sha256 => "sha256",
            Mode::Sha512 => "sha512",
            Mode::Shake128 => "shake128",
        }
    }
    pub fn from_index(i: usize) -> Mode { MODES[i % 4] }
}

/// DER OID and PH_M of Algorithm 4/5 steps 10-22.
pub fn prehash(mode: Mode, m: &[u8]) -> (Vec<u8>, Vec<u8>) {
    let base = [0x06u8, 0x09, 0x60, 0x86, 0x48, 0x01, 0x65, 0x03, 0x04, 0x02];
    match mode {
        Mode::Pure => panic!("prehash of pure mode"),
        Mode::Sha256 => {
            let mut oid = base.to_vec();
            oid.push(0x01);
            (oid, Sha256::digest(m).to_vec())
        }
        Mode::Sha512 => {
            let mut oid = base.to_vec();
            oid.push(0x03);
            (oid, Sha512::digest(m).to_vec())
        }
        Mode::Shake128 => {
            let mut oid = base.to_vec();
            oid.push(0x0B);
            let mut s = Shake128::default();
            s.update(m);
            let mut out = vec![0u8; 32];
            s.finalize_xof().read(&mut out);
            (oid, out)
        }
    }
}

/// M' of Algorithm 2 step 10 / Algorithm 4 step 23. Caller guarantees |ctx| <= 255.
pub fn format_message(mode: Mode, m: &[u8], ctx: &[u8]) -> Vec<u8> {
    assert!(ctx.len() <= 255);
    let mut mp = Vec::with_capacity(2 + ctx.len() + m.len());
    match mode {
        Mode::Pure => {
            mp.extend_from_slice(&integer_to_bytes(0, 1));
            mp.extend_from_slice(&integer_to_bytes(ctx.len() as i64, 1));
            mp.extend_from_slice(ctx);
            mp.extend_from_slice(m);
        }
        _ => {
            let (oid, phm) = prehash(mode, m);
            mp.extend_from_slice(&integer_to_bytes(1, 1));
            mp.extend_from_slice(&integer_to_bytes(ctx.len() as i64, 1));
            mp.extend_from_slice(ctx);
            mp.extend_from_slice(&oid);
            mp.extend_from_slice(&phm);
        }
    }
    mp
}

/// Algorithms 2 and 4.
pub fn sign(
    p: &Params, sk: &[u8], m: &[u8], ctx: &[u8], mode: Mode, rnd: &[u8], max_iters: u32,
) -> Result<(Vec<u8>, SignDiag), SignError> {
    if ctx.len() > 255 {
        return Err(SignError::CtxTooLong);
    }
    sign_internal(p, sk, &format_message(mode, m, ctx), rnd, max_iters)
}

/// Algorithms 3 and 5.
pub fn verify(p: &Params, pk: &[u8], m: &[u8], sigma: &[u8], ctx: &[u8], mode: Mode) -> Verdict {
    if ctx.len() > 255 {
        return Verdict::CtxTooLong;
    }
    verify_internal(p, pk, &format_message(mode, m, ctx), sigma)
}

// ---------------------------------------------------------------------------------------------
// Self test of the oracle (ACVP vectors of the repository + internal consistency)

pub mod selftest;
