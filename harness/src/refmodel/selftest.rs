//! Validation of the reference model itself. A failure here means the *oracle* is broken
//! (exit 2, never a violation of a property).

use super::*;
use rand_core::{RngCore, SeedableRng};
use serde_json::Value;

fn hexd(v: &Value) -> Vec<u8> { hex::decode(v.as_str().expect("hex string")).expect("hex") }

fn pset(name: &str) -> Params {
    match name {
        "ML-DSA-44" => P44,
        "ML-DSA-65" => P65,
        "ML-DSA-87" => P87,
        _ => panic!("unknown set"),
    }
}

#[derive(Debug, Default)]
pub struct SelfTestReport {
    pub keygen: usize,
    pub siggen: usize,
    pub sigver: usize,
    pub external_kat: usize,
    pub algebra: usize,
}

/// `full = false` runs a reduced subset (one vector of each kind per set) for fast start-up.
pub fn run(root: &str, full: bool) -> Result<SelfTestReport, String> {
    let mut rep = SelfTestReport::default();
    for p in ALL {
        p.check_sizes();
    }
    let load = |name: &str| -> Result<Value, String> {
        let path = format!("{root}/corpus/acvp/{name}.json");
        let s = std::fs::read_to_string(&path).map_err(|e| format!("{path}: {e}"))?;
        serde_json::from_str(&s).map_err(|e| format!("{path}: {e}"))
    };
    let per_group = if full { usize::MAX } else { 1 };

    let v = load("keyGen")?;
    for g in v["testGroups"].as_array().unwrap() {
        let p = pset(g["parameterSet"].as_str().unwrap());
        for t in g["tests"].as_array().unwrap().iter().take(per_group) {
            let (pk, sk) = keygen_internal(&p, &hexd(&t["seed"]));
            if pk != hexd(&t["pk"]) || sk != hexd(&t["sk"]) {
                return Err(format!("refmodel keygen mismatch tcId {}", t["tcId"]));
            }
            rep.keygen += 1;
        }
    }
    let v = load("sigGen")?;
    for g in v["testGroups"].as_array().unwrap() {
        let p = pset(g["parameterSet"].as_str().unwrap());
        for t in g["tests"].as_array().unwrap().iter().take(per_group) {
            let rnd = if t["rnd"].is_string() { hexd(&t["rnd"]) } else { vec![0u8; 32] };
            let (sig, _) =
                sign_internal(&p, &hexd(&t["sk"]), &hexd(&t["message"]), &rnd, 10_000)
                    .map_err(|e| format!("refmodel sign error {e:?}"))?;
            if sig != hexd(&t["signature"]) {
                return Err(format!("refmodel siggen mismatch tcId {}", t["tcId"]));
            }
            rep.siggen += 1;
        }
    }
    let v = load("sigVer")?;
    for g in v["testGroups"].as_array().unwrap() {
        let p = pset(g["parameterSet"].as_str().unwrap());
        let pk = hexd(&g["pk"]);
        let n = if full { usize::MAX } else { 4 };
        for t in g["tests"].as_array().unwrap().iter().take(n) {
            let verdict = verify_internal(&p, &pk, &hexd(&t["message"]), &hexd(&t["signature"]));
            if verdict.accepted() != t["testPassed"].as_bool().unwrap() {
                return Err(format!("refmodel sigver mismatch tcId {} ({verdict:?})", t["tcId"]));
            }
            rep.sigver += 1;
        }
    }

    // External interface KAT (pure mode): tests/messages.rs of the repository, copied to corpus/.
    {
        let path = format!("{root}/corpus/kat_messages.json");
        let s = std::fs::read_to_string(&path).map_err(|e| format!("{path}: {e}"))?;
        let k: Value = serde_json::from_str(&s).map_err(|e| format!("{path}: {e}"))?;
        let mut rng = rand_chacha::ChaCha8Rng::seed_from_u64(123);
        let mut xi = [0u8; 32];
        rng.fill_bytes(&mut xi);
        let mut rnd = [0u8; 32];
        rng.fill_bytes(&mut rnd);
        let (pk, sk) = keygen_internal(&P44, &xi);
        if pk != hexd(&k["pk"]) || sk != hexd(&k["sk"]) {
            return Err("refmodel external KAT: key mismatch".into());
        }
        let (sig, _) = sign(&P44, &sk, b"asdf", &[], Mode::Pure, &rnd, 10_000)
            .map_err(|e| format!("{e:?}"))?;
        if sig != hexd(&k["sig"]) {
            return Err("refmodel external KAT: signature mismatch".into());
        }
        if !verify(&P44, &pk, b"asdf", &sig, &[], Mode::Pure).accepted() {
            return Err("refmodel external KAT: verify".into());
        }
        rep.external_kat += 1;
    }

    // Internal algebra: NTT vs schoolbook, round trips, bit packing.
    {
        let mut rng = rand_chacha::ChaCha8Rng::seed_from_u64(7);
        let n = if full { 8 } else { 2 };
        for it in 0..n {
            let a: Poly = core::array::from_fn(|_| (rng.next_u32() as i64) % Q);
            let b: Poly = if it == 0 {
                let mut m = ZERO;
                m[255] = Q - 1;
                m
            } else {
                core::array::from_fn(|_| (rng.next_u32() as i64) % Q)
            };
            let via_ntt = ntt_inv(&multiply_ntt(&ntt(&a), &ntt(&b)));
            if via_ntt != schoolbook_mul(&a, &b) {
                return Err("refmodel: NTT product != schoolbook product".into());
            }
            if ntt_inv(&ntt(&a)) != a {
                return Err("refmodel: NTT round trip".into());
            }
            rep.algebra += 1;
        }
        // zeta is a primitive 512th root of unity
        if pow_mod(ZETA, 256) != Q - 1 || pow_mod(ZETA, 512) != 1 {
            return Err("refmodel: zeta".into());
        }
        // bit packing round trips on extremes
        for (a, b) in [(2i64, 2i64), (4, 4), (4095, 4096), ((1 << 17) - 1, 1 << 17), ((1 << 19) - 1, 1 << 19)] {
            let w: Poly = core::array::from_fn(|i| match i % 4 {
                0 => -a,
                1 => b,
                2 => 0,
                _ => ((rng.next_u32() as i64) % (a + b + 1)) - a,
            });
            if bit_unpack(&bit_pack(&w, a, b), a, b) != w {
                return Err("refmodel: BitPack round trip".into());
            }
            rep.algebra += 1;
        }
        for b in [1023i64, 15, 43] {
            let w: Poly = core::array::from_fn(|i| if i % 2 == 0 { b } else { (i as i64) % (b + 1) });
            if simple_bit_unpack(&simple_bit_pack(&w, b), b) != w {
                return Err("refmodel: SimpleBitPack round trip".into());
            }
            rep.algebra += 1;
        }
        // Decompose corner values quoted in FIPS 204 / the crate's doc comment
        if decompose(95_232, 8_285_185) != (0, -95_232) || decompose(261_888, 8_118_529) != (0, -261_888) {
            return Err("refmodel: Decompose corner".into());
        }
    }
    Ok(rep)
}
