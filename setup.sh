#!/bin/sh
# Build the framework offline from files on disk: the three profiles of the vcheck engine (plain, checked, lto), the
# sanitizer-coverage trace binary (nightly), then the reference self-test (ACVP vectors).
# Build output goes to /verif/work (git-ignored); nothing is kept under /tmp.
set -e
cd "$(dirname "$0")"
export CARGO_NET_OFFLINE=true
mkdir -p work/reports evidence replays
( cd harness && CARGO_TARGET_DIR="$(pwd)/../work/target" cargo build --profile plain --bin vcheck && CARGO_TARGET_DIR="$(pwd)/../work/target" cargo build --profile checked --bin vcheck && CARGO_TARGET_DIR="$(pwd)/../work/target" cargo build --profile ltoplain --bin vcheck --no-default-features )
( cd cttrace && RUSTFLAGS="-Cpasses=sancov-module -Cllvm-args=-sanitizer-coverage-level=3 -Cllvm-args=-sanitizer-coverage-trace-pc-guard -Cllvm-args=-sanitizer-coverage-trace-loads -Cllvm-args=-sanitizer-coverage-trace-stores -Cllvm-args=-sanitizer-coverage-pc-table" CARGO_TARGET_DIR="$(pwd)/../work/target-sancov" cargo +nightly build --release --target x86_64-unknown-linux-gnu )
VERIF_ROOT="$(pwd)" work/target/plain/vcheck selftest
