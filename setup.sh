#!/bin/sh
# Build the framework offline from files on disk: both profiles of the vcheck engine, then the
# reference self-test (ACVP vectors). Target directory: /verif/work/target.
set -e
cd "$(dirname "$0")"
export CARGO_NET_OFFLINE=true
mkdir -p work/reports evidence replays
( cd harness && cargo build --profile plain --bin vcheck && cargo build --profile checked --bin vcheck )
VERIF_ROOT="$(pwd)" work/target/plain/vcheck selftest
