#!/usr/bin/env python3
"""Print the markdown table of seeded changes and which checks caught them (from seeded/*/meta.json)."""
import glob, json, os
rows = []
for f in sorted(glob.glob(os.path.join(os.path.dirname(__file__), "..", "seeded", "*", "meta.json"))):
    m = json.load(open(f))
    res = m.get("checks_run_against_it", {})
    def cell(c, r):
        return {1: f"**{c}** caught", 0: f"{c} silent", 2: f"{c} inconclusive"}.get(r["exit"], f"{c} exit {r['exit']}")
    own = m["property"]
    caught = ", ".join(cell(c, r) for c, r in res.items())
    early = m.get("earlier_runs_before_checks_were_strengthened", [])
    e = ""
    if early:
        missed = sorted({c for run in early for c, r in run.items() if r["exit"] != 1 and res.get(c, {}).get("exit") == 1})
        if missed:
            e = " (missed by " + ", ".join(missed) + " before strengthening)"
    if m.get("thorough_tier"):
        e += " (thorough tier: " + "; ".join(f"{k} {v.split(':')[0]}" for k, v in m["thorough_tier"].items()) + ")"
    if m.get("judgement"):
        e += " (" + m["judgement"].split(":")[0] + ")"
    rows.append(f"| {m['seed_id']} | {m.get('needs_to_manifest','')[:150]} | {'yes' if m.get('confirmed') else 'NO'} | {caught}{e} |")
print("| seed | needs to manifest | confirmed | quick checks run against it |")
print("|---|---|---|---|")
print("\n".join(rows))
