#!/usr/bin/env python3
"""Confirm a seeded change and run checks against it.

  tools/seedtest.py <seed-id> <prop> <patch> <demo.rs> <demo-test-name> [--demo-args "..."] [--checks C01,C03] [--needs "..."] [--skip-confirm]

A. in the scratch worktree /tmp/seed_<prop>: patch applies; existing tests pass; builds with
   verif-hooks and dudect; demo fails with the patch and passes without it.
B. applies the patch to /repo, runs ./check <ID> (quick) for each requested check, reverts /repo.
C. writes /verif/seeded/<seed-id>/{patch.diff, demo.rs, meta.json}.
"""
import json, os, shutil, subprocess, sys, time

def sh(cmd, cwd=None, timeout=3600):
    p = subprocess.run(cmd, cwd=cwd, shell=True, stdout=subprocess.PIPE, stderr=subprocess.STDOUT, text=True, timeout=timeout,
                       env=dict(os.environ, CARGO_NET_OFFLINE="true", CARGO_TERM_COLOR="never"))
    return p.returncode, p.stdout

def main():
    a = sys.argv[1:]
    sid, prop, patch, demo, demo_name = a[:5]
    opt = dict(zip(a[5::2], a[6::2]))
    demo_args = opt.get("--demo-args", "")
    demo_env = opt.get("--demo-env", "")
    demo_tail = opt.get("--demo-tail", "")
    demo_cargo = opt.get("--demo-cargo", "cargo")
    checks = [c for c in opt.get("--checks", prop).split(",") if c]
    wt = opt.get("--wt", f"/tmp/seed_{prop}")
    if os.environ.get("SEEDTEST_CONFIRM_ONLY"):
        checks = []
    if os.environ.get("SEEDTEST_SKIP_CONFIRM"):
        a.append("--skip-confirm")
    meta = {"seed_id": sid, "property": prop, "needs_to_manifest": opt.get("--needs", ""), "source": "independent sub-agent (given only the property text and a scratch worktree)",
            "base_commit": subprocess.run("git -C /repo rev-parse --short HEAD", shell=True, stdout=subprocess.PIPE, text=True).stdout.strip(), "ran": []}
    patch = os.path.abspath(patch); demo = os.path.abspath(demo)
    old_meta_path = f"/verif/seeded/{sid}/meta.json"
    old = json.load(open(old_meta_path)) if os.path.exists(old_meta_path) else {}
    if "--skip-confirm" in a and old:
        meta["ran"] = old.get("ran", [])
        if "confirmed" in old:
            meta["confirmed"] = old["confirmed"]
    if "--skip-confirm" not in a:
        sh("git checkout -q -- . && git clean -qfd -e target", cwd=wt)
        rc, out = sh(f"git apply --check {patch} && git apply {patch}", cwd=wt)
        assert rc == 0, "patch does not apply: " + out
        rc, out = sh("cargo test --workspace --no-fail-fast --offline 2>&1 | grep -E '^test result|FAILED|error' ", cwd=wt)
        ok_tests = "FAILED" not in out and "error" not in out and out.count("test result: ok") >= 4
        meta["ran"].append({"cmd": "cargo test --workspace --no-fail-fast --offline (with patch)", "result": "pass" if ok_tests else "FAIL", "tail": out[-400:]})
        rc1, o1 = sh("cargo build --offline --features verif-hooks 2>&1 | tail -3 && cargo build --offline --features dudect 2>&1 | tail -3", cwd=wt)
        ok_build = "error" not in o1
        meta["ran"].append({"cmd": "cargo build --features verif-hooks / dudect (with patch)", "result": "ok" if ok_build else "FAIL"})
        shutil.copy(demo, os.path.join(wt, "tests", demo_name + ".rs"))
        rc_with, o_with = sh(f"{demo_env} {demo_cargo} test --offline {demo_args} --test {demo_name} {demo_tail} 2>&1 | grep -E '^test result|panicked|error' | sort -r | head -5", cwd=wt)
        demo_fails = "FAILED" in o_with or "panicked" in o_with or ("failed" in o_with and "0 failed" not in o_with)
        meta["ran"].append({"cmd": f"cargo test --offline {demo_args} --test {demo_name} (with patch)", "result": "fails" if demo_fails else "PASSES(unexpected)", "tail": o_with[-300:]})
        sh(f"git apply -R {patch}", cwd=wt)
        rc_wo, o_wo = sh(f"{demo_env} {demo_cargo} test --offline {demo_args} --test {demo_name} {demo_tail} 2>&1 | grep -E '^test result|panicked|error' | head -5", cwd=wt)
        demo_passes = "test result: ok" in o_wo and "FAILED" not in o_wo
        meta["ran"].append({"cmd": f"cargo test --offline {demo_args} --test {demo_name} (without patch)", "result": "passes" if demo_passes else "FAILS(unexpected)", "tail": o_wo[-300:]})
        sh("git checkout -q -- . && git clean -qfd -e target", cwd=wt)
        meta["confirmed"] = bool(ok_tests and ok_build and demo_fails and demo_passes)
        print(f"[{sid}] confirm: tests={'pass' if ok_tests else 'FAIL'} build={'ok' if ok_build else 'FAIL'} demo_with={'fails' if demo_fails else 'passes'} demo_without={'passes' if demo_passes else 'fails'} -> confirmed={meta['confirmed']}", flush=True)
    results = {}
    if checks:
        # B: run checks against /repo with the patch
        rc, out = sh("git status --porcelain", cwd="/repo")
        assert out.strip() == "", "/repo not clean"
        rc, out = sh(f"git apply {patch}", cwd="/repo")
        assert rc == 0, out
        try:
            for c in checks:
                t = time.time()
                rc, out = sh(f"./check {c} --tier quick", cwd="/verif", timeout=7200)
                v = [l for l in out.splitlines() if l.startswith("VIOLATION")]
                what = [l.strip() for l in out.splitlines() if l.strip().startswith("what:")]
                results[c] = {"exit": rc, "violations": len(v), "first": (what[0][:400] if what else ""), "wall_s": round(time.time() - t, 1)}
                print(f"[{sid}] check {c}: exit={rc} violations={len(v)} {what[0][:200] if what else ''}", flush=True)
        finally:
            sh("git checkout -q -- . && git clean -qfd -e target", cwd="/repo")
            sh("rm -f /verif/replays/*.json")
    prev = old.get("checks_run_against_it", {})
    if prev:
        meta["earlier_runs_before_checks_were_strengthened"] = old.get("earlier_runs_before_checks_were_strengthened", []) + [{k: v for k, v in prev.items() if k in results}]
        for k, v in prev.items():
            results.setdefault(k, v)
    meta["checks_run_against_it"] = results
    meta["caught_by"] = [c for c, r in results.items() if r["exit"] == 1]
    d = f"/verif/seeded/{sid}"
    os.makedirs(d, exist_ok=True)
    shutil.copy(patch, os.path.join(d, "patch.diff"))
    shutil.copy(demo, os.path.join(d, "demo.rs"))
    meta["demo"] = {"place_at": f"tests/{demo_name}.rs", "run": f"{demo_env} {demo_cargo} test --offline {demo_args} --test {demo_name} {demo_tail}".replace("  ", " ").strip()}
    json.dump(meta, open(os.path.join(d, "meta.json"), "w"), indent=1)

main()
